// kani hooks for src/batch.rs (included as a child module `verif_kani` of that file)
