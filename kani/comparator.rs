// kani hooks for src/comparator.rs (included as a child module `verif_kani` of that file)
