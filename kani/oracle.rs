// kani hooks for src/oracle.rs (included as a child module `verif_kani` of that file)
