// Kani harnesses for src/vlog.rs (child module `verif_kani` of that file: private items are visible).
use super::*;

/// COMPLETE (loop-free over a fixed 25-byte encoding, every field fully symbolic):
/// ValuePointer::decode(encode(p)) == Ok(p) and the encoding has the fixed size.
#[kani::proof]
fn vp_roundtrip_complete() {
	let p = ValuePointer {
		version: kani::any(),
		file_id: kani::any(),
		offset: kani::any(),
		key_size: kani::any(),
		value_size: kani::any(),
		checksum: kani::any(),
	};
	let e = p.encode();
	assert!(e.len() == VALUE_POINTER_SIZE);
	let d = ValuePointer::decode(&e);
	assert!(d.is_ok());
	let d = d.unwrap();
	assert!(d.version == p.version);
	assert!(d.file_id == p.file_id);
	assert!(d.offset == p.offset);
	assert!(d.key_size == p.key_size);
	assert!(d.value_size == p.value_size);
	assert!(d.checksum == p.checksum);
	// total_entry_size never overflows: 8 + u32 + u32 + 4 fits u64
	let t = p.total_entry_size();
	assert!(t == 12 + p.key_size as u64 + p.value_size as u64);
}
