// kani hooks for src/wal/reader.rs (included as a child module `verif_kani` of that file)
