// kani hooks for src/transaction.rs (included as a child module `verif_kani` of that file)
