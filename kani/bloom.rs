// kani hooks for src/sstable/bloom.rs (included as a child module `verif_kani` of that file)
