// kani hooks for src/memtable/mod.rs (included as a child module `verif_kani` of that file)
