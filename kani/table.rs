// Kani harnesses for src/sstable/table.rs
use super::*;

/// COMPLETE (loop-free, all 2^32 inputs): unmask(mask(c)) == c and mask(unmask(m)) == m.
#[kani::proof]
fn checksum_mask_roundtrip_complete() {
	let c: u32 = kani::any();
	assert!(unmask(mask(c)) == c);
	assert!(mask(unmask(c)) == c);
}

/// COMPLETE over all 2^400 contents of a 50-byte footer: Footer::decode never panics (no index out of
/// bounds, no overflow) - it returns Ok or an error.  (varint loops <= 10 iterations, unwind 12)
#[kani::proof]
#[kani::unwind(12)]
#[kani::stub(alloc::fmt::format, verif_stub_format)]
fn footer_decode_never_panics_complete() {
	let buf: [u8; TABLE_FULL_FOOTER_LENGTH] = kani::any();
	let r = Footer::decode(&buf);
	if let Ok(f) = r {
		// an accepted footer has the magic and decodable handles
		assert!(buf[TABLE_FOOTER_LENGTH..] == TABLE_MAGIC_FOOTER_ENCODED);
		let _ = (f.meta_index.offset, f.index.offset);
	}
}

#[allow(dead_code)]
fn verif_stub_format(_args: core::fmt::Arguments<'_>) -> String {
	String::new()
}
