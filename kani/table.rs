// Kani harnesses for src/sstable/table.rs
use super::*;

/// COMPLETE (loop-free, all 2^32 inputs): unmask(mask(c)) == c and mask(unmask(m)) == m.
#[kani::proof]
fn checksum_mask_roundtrip_complete() {
	let c: u32 = kani::any();
	assert!(unmask(mask(c)) == c);
	assert!(mask(unmask(c)) == c);
}
