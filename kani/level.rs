// kani hooks for src/levels/level.rs (included as a child module `verif_kani` of that file)
