// kani hooks for src/levels/mod.rs (included as a child module `verif_kani` of that file)
