// Kani harnesses for src/lib.rs
use super::*;

/// COMPLETE (loop-free, all u64 trailers): kind and seq extraction agree with InternalKey::new's packing.
#[kani::proof]
fn trailer_pack_unpack_complete() {
	let seq: u64 = kani::any();
	kani::assume(seq <= INTERNAL_KEY_SEQ_NUM_MAX);
	let kb: u8 = kani::any();
	let kind = InternalKeyKind::from(kb);
	let k = InternalKey::new(Vec::new(), seq, kind, 0);
	assert!(k.seq_num() == seq);
	assert!(k.kind() == kind || matches!(kind, InternalKeyKind::Invalid));
	kani::cover!(seq == INTERNAL_KEY_SEQ_NUM_MAX);
	kani::cover!(matches!(kind, InternalKeyKind::Replace));
}
