// kani hooks for src/iter.rs (included as a child module `verif_kani` of that file)
