// kani hooks for src/snapshot.rs (included as a child module `verif_kani` of that file)
