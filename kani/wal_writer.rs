// kani hooks for src/wal/writer.rs (included as a child module `verif_kani` of that file)
