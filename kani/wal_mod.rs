// kani hooks for src/wal/mod.rs (included as a child module `verif_kani` of that file)
