// kani hooks for src/commit.rs (included as a child module `verif_kani` of that file)
