// Kani harnesses for src/sstable/block.rs
use super::*;

/// COMPLETE for all (offset, size) in usize x usize: varint loops are bounded by the operand width
/// (<= 10 bytes per value; unwind 12 with unwinding assertions on).
/// BlockHandle::decode(encode(h)) == (h, bytes written).
#[kani::proof]
#[kani::unwind(12)]
fn block_handle_roundtrip_complete() {
	let h = BlockHandle::new(kani::any(), kani::any());
	let mut buf = [0u8; 20];
	let n = h.encode_into(&mut buf);
	assert!(n >= 2 && n <= 20);
	let r = BlockHandle::decode(&buf[..n]);
	assert!(r.is_ok());
	let (d, m) = r.unwrap();
	assert!(d.offset == h.offset && d.size == h.size);
	assert!(m == n);
}
