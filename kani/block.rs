// kani hooks for src/sstable/block.rs (included as a child module `verif_kani` of that file)
