// ---- shared trusted prelude (included by units with //@include prelude/common.rs) ----
/// R-ERRFMT: error messages are opaque.
#[verifier::external_body]
pub fn opaque_string() -> String { String::new() }
