#!/bin/bash
# usage: seedtest.sh <patch.diff> <prop> [more props]   -- applies a seeded change to /repo, runs the checks, undoes it
set -u
patch=$1; shift
cd /repo && git apply "$patch" || { echo "patch does not apply"; exit 3; }
for p in "$@"; do
  (cd /verif && VERIF_OUT=/var/tmp/seedtest-out python3 check.py $p 2>&1 | grep -E "^(VIOLATION|FAILED OBLIGATION|UNDECIDED|OK|KNOWN)" | cut -c1-250; echo "rc[$p]=${PIPESTATUS[0]}")
done
cd /repo && git checkout -- . && git status --short | head -3
rm -rf /var/tmp/seedtest-out
