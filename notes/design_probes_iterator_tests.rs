#[test]
fn verif_probe_tombstone_bottom_older_snapshot() {
	let items = vec![
		(create_internal_key("key1", 100, InternalKeyKind::Delete), b"".to_vec()),
		(create_internal_key("key1", 50, InternalKeyKind::Set), b"v1".to_vec()),
	];
	let iter = build_table_iterator(items);
	let mut comp_iter = CompactionIterator::new(
		vec![iter],
		create_comparator(),
		true,
		false,
		0,
		Arc::new(MockLogicalClock::new()),
		vec![75],
	);
	let mut result = Vec::new();
	for item in comp_iter.by_ref() {
		let (key, _) = item.unwrap();
		result.push((key.seq_num(), key.kind()));
	}
	println!("PROBE RESULT {:?}", result);
	assert!(result.iter().any(|r| r.0 == 50), "snapshot 75 must still see seq=50");
}

#[test]
fn verif_probe_f7_versioning_open_reader() {
	let clock = Arc::new(MockLogicalClock::new());
	clock.set_time(1000);
	let items = vec![
		(create_internal_key_with_timestamp("key1", 50, InternalKeyKind::Set, 900), b"v2".to_vec()),
		(create_internal_key_with_timestamp("key1", 40, InternalKeyKind::Set, 800), b"v1".to_vec()),
	];
	for snaps in [vec![], vec![100u64]] {
		let iter = build_table_iterator(items.clone());
		let mut comp_iter = CompactionIterator::new(vec![iter], create_comparator(), false, true, 0, clock.clone(), snaps.clone());
		let mut result = Vec::new();
		for item in comp_iter.by_ref() { let (key, _) = item.unwrap(); result.push(key.seq_num()); }
		println!("PROBE_F7 snapshots={:?} kept={:?}", snaps, result);
	}
}

#[test]
fn verif_probe_f8_mid_hard_delete_versioning() {
	let clock = Arc::new(MockLogicalClock::new());
	clock.set_time(1000);
	let items = vec![
		(create_internal_key_with_timestamp("key1", 100, InternalKeyKind::Set, 950), b"v3".to_vec()),
		(create_internal_key_with_timestamp("key1", 50, InternalKeyKind::Delete, 900), b"".to_vec()),
		(create_internal_key_with_timestamp("key1", 40, InternalKeyKind::Set, 800), b"v1".to_vec()),
	];
	for bottom in [false, true] {
		let iter = build_table_iterator(items.clone());
		let mut comp_iter = CompactionIterator::new(vec![iter], create_comparator(), bottom, true, 0, clock.clone(), vec![]);
		let mut result = Vec::new();
		for item in comp_iter.by_ref() { let (key, _) = item.unwrap(); result.push((key.seq_num(), key.kind())); }
		println!("PROBE_F8 bottom={} kept={:?}", bottom, result);
	}
}

#[test]
fn verif_probe_f9_newer_than_replace() {
	let clock = Arc::new(MockLogicalClock::new());
	clock.set_time(1000);
	let items = vec![
		(create_internal_key_with_timestamp("key1", 120, InternalKeyKind::Set, 950), b"v3".to_vec()),
		(create_internal_key_with_timestamp("key1", 110, InternalKeyKind::Set, 900), b"v2".to_vec()),
		(create_internal_key_with_timestamp("key1", 100, InternalKeyKind::Replace, 800), b"v1".to_vec()),
		(create_internal_key_with_timestamp("key1", 90, InternalKeyKind::Set, 700), b"v0".to_vec()),
	];
	for bottom in [false, true] {
		let iter = build_table_iterator(items.clone());
		let mut comp_iter = CompactionIterator::new(vec![iter], create_comparator(), bottom, true, 0, clock.clone(), vec![]);
		let mut result = Vec::new();
		for item in comp_iter.by_ref() { let (key, _) = item.unwrap(); result.push((key.seq_num(), key.kind())); }
		println!("PROBE_F9 bottom={} kept={:?}", bottom, result);
	}
}
