// appended to src/test/iterator_tests.rs in the scratch copy (uses that file's private helpers)
#[test]
fn verif_probe_tombstone_bottom_older_snapshot() {
	let items = vec![
		(create_internal_key("key1", 100, InternalKeyKind::Delete), b"".to_vec()),
		(create_internal_key("key1", 50, InternalKeyKind::Set), b"v1".to_vec()),
	];
	let iter = build_table_iterator(items);
	let mut comp_iter = CompactionIterator::new(
		vec![iter],
		create_comparator(),
		true,
		false,
		0,
		Arc::new(MockLogicalClock::new()),
		vec![75],
	);
	let mut result = Vec::new();
	for item in comp_iter.by_ref() {
		let (key, _) = item.unwrap();
		result.push((key.seq_num(), key.kind()));
	}
	println!("PROBE RESULT {:?}", result);
	assert!(result.iter().any(|r| r.0 == 50), "snapshot 75 must still see seq=50");
}

#[test]
fn verif_probe_f7_versioning_open_reader() {
	let clock = Arc::new(MockLogicalClock::new());
	clock.set_time(1000);
	let items = vec![
		(create_internal_key_with_timestamp("key1", 50, InternalKeyKind::Set, 900), b"v2".to_vec()),
		(create_internal_key_with_timestamp("key1", 40, InternalKeyKind::Set, 800), b"v1".to_vec()),
	];
	for snaps in [vec![], vec![100u64]] {
		let iter = build_table_iterator(items.clone());
		let mut comp_iter = CompactionIterator::new(vec![iter], create_comparator(), false, true, 0, clock.clone(), snaps.clone());
		let mut result = Vec::new();
		for item in comp_iter.by_ref() { let (key, _) = item.unwrap(); result.push(key.seq_num()); }
		println!("PROBE_F7 snapshots={:?} kept={:?}", snaps, result);
	}
}
