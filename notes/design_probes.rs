use std::sync::Arc;
use tempdir::TempDir;
use crate::compaction::leveled::Strategy;
use crate::{LSMIterator, Options, Tree, TreeBuilder, ReadOptions};

fn mk(levels: u8) -> (Tree, TempDir, Arc<Options>) {
	let d = TempDir::new("probe").unwrap();
	let (tree, opts) = TreeBuilder::new()
		.with_path(d.path().to_path_buf())
		.with_level_count(levels)
		.build_with_options()
		.unwrap();
	(tree, d, opts)
}
fn strat(opts: &Arc<Options>) -> Arc<Strategy> {
	let mut o = (**opts).clone();
	o.level0_max_files = 1;
	Arc::new(Strategy::from_options(Arc::new(o)))
}

#[tokio::test]
async fn probe_a_bottom_tombstone_older_reader() {
	let (tree, _d, opts) = mk(2);
	{ let mut t = tree.begin().unwrap(); t.set(b"k", b"v1").unwrap(); t.commit().await.unwrap(); }
	let r = tree.begin().unwrap();
	{ let mut t = tree.begin().unwrap(); t.delete(b"k").unwrap(); t.commit().await.unwrap(); }
	tree.flush().unwrap();
	println!("PROBE_A before compact: {:?}", r.get(b"k").unwrap());
	tree.compact(strat(&opts)).unwrap();
	let got = r.get(b"k").unwrap();
	println!("PROBE_A after compact: {:?} l0={} ", got, tree.core.inner.l0_file_count());
	assert_eq!(got, Some(b"v1".to_vec()));
}

#[tokio::test]
async fn probe_b_shared_start_seq() {
	let (tree, _d, opts) = mk(2);
	{ let mut t = tree.begin().unwrap(); t.set(b"k", b"v1").unwrap(); t.commit().await.unwrap(); }
	let r1 = tree.begin().unwrap();
	let r2 = tree.begin().unwrap();
	drop(r1);
	println!("PROBE_B tracker after drop r1: {:?}", tree.core.inner.snapshot_tracker.get_all_snapshots());
	{ let mut t = tree.begin().unwrap(); t.set(b"k", b"v2").unwrap(); t.commit().await.unwrap(); }
	tree.flush().unwrap();
	tree.compact(strat(&opts)).unwrap();
	let got = r2.get(b"k").unwrap();
	println!("PROBE_B after compact: {:?}", got);
	assert_eq!(got, Some(b"v1".to_vec()));
}

#[tokio::test]
async fn probe_c_cursor_unregisters() {
	let (tree, _d, opts) = mk(2);
	{ let mut t = tree.begin().unwrap(); t.set(b"k", b"v1").unwrap(); t.commit().await.unwrap(); }
	let r = tree.begin().unwrap();
	println!("PROBE_C tracker before range: {:?}", tree.core.inner.snapshot_tracker.get_all_snapshots());
	{ let mut it = r.range(b"a", b"z").unwrap(); it.seek_first().unwrap(); }
	println!("PROBE_C tracker after range: {:?}", tree.core.inner.snapshot_tracker.get_all_snapshots());
	{ let mut t = tree.begin().unwrap(); t.set(b"k", b"v2").unwrap(); t.commit().await.unwrap(); }
	tree.flush().unwrap();
	tree.compact(strat(&opts)).unwrap();
	let got = r.get(b"k").unwrap();
	println!("PROBE_C after compact: {:?}", got);
	assert_eq!(got, Some(b"v1".to_vec()));
}

#[tokio::test]
async fn probe_d_range_open_upper() {
	let (tree, _d, _opts) = mk(2);
	{ let mut t = tree.begin().unwrap(); t.set(b"k", b"v1").unwrap(); t.commit().await.unwrap(); }
	let r = tree.begin().unwrap();
	let mut ro = ReadOptions::new();
	ro.set_iterate_lower_bound(Some(b"a".to_vec()));
	let res = std::panic::catch_unwind(std::panic::AssertUnwindSafe(|| {
		let mut it = r.range_with_options(&ro).unwrap();
		let v = it.seek_first().unwrap();
		println!("PROBE_D lower-only valid={}", v);
		v
	}));
	println!("PROBE_D result: {:?}", res.as_ref().map_err(|_| "PANIC"));
	let ro2 = ReadOptions::new();
	let mut it = r.range_with_options(&ro2).unwrap();
	println!("PROBE_D unbounded valid={}", it.seek_first().unwrap());
	let mut w = tree.begin().unwrap(); w.set(b"m", b"1").unwrap();
	let res3 = std::panic::catch_unwind(std::panic::AssertUnwindSafe(|| {
		let mut it = w.range_with_options(&ro).unwrap();
		it.seek_first().unwrap()
	}));
	println!("PROBE_D lower-only with writeset: {:?}", res3.as_ref().map_err(|_| "PANIC"));
	let res4 = std::panic::catch_unwind(std::panic::AssertUnwindSafe(|| {
		let mut it = w.range(b"z", b"a").unwrap();
		it.seek_first().unwrap()
	}));
	println!("PROBE_D inverted with writeset: {:?}", res4.as_ref().map_err(|_| "PANIC"));
	let res2 = std::panic::catch_unwind(std::panic::AssertUnwindSafe(|| {
		let mut it = r.range(b"z", b"a").unwrap();
		it.seek_first().unwrap()
	}));
	println!("PROBE_D inverted: {:?}", res2.as_ref().map_err(|_| "PANIC"));
	assert!(res.is_ok() && res2.is_ok());
}

#[tokio::test]
async fn probe_e_reopen_after_all_dropped() {
	let d = TempDir::new("probe").unwrap();
	{
		let (tree, opts) = TreeBuilder::new().with_path(d.path().to_path_buf()).with_level_count(2).build_with_options().unwrap();
		{ let mut t = tree.begin().unwrap(); t.set(b"k", b"v1").unwrap(); t.commit().await.unwrap(); }
		tree.flush().unwrap();
		{ let mut t = tree.begin().unwrap(); t.delete(b"k").unwrap(); t.commit().await.unwrap(); }
		tree.flush().unwrap();
		tree.compact(strat(&opts)).unwrap();
		println!("PROBE_E l0={} last_seq={}", tree.core.inner.l0_file_count(), tree.core.inner.level_manifest.read().unwrap().get_last_sequence());
		tree.close().await.unwrap();
	}
	let r = TreeBuilder::new().with_path(d.path().to_path_buf()).with_level_count(2).build();
	println!("PROBE_E reopen: {:?}", r.as_ref().map(|_| "ok").map_err(|e| e.to_string()));
	assert!(r.is_ok());
}

#[test]
fn probe_f6_oracle_rollback_forgets_older_stamp() {
	use crate::oracle::CommitOracle;
	let o = CommitOracle::new();
	o.publish([b"k".as_slice()], 5, 1, 0);   // T0 commits k at 5
	o.publish([b"k".as_slice()], 9, 1, 0);   // T1 stamps k at 9
	o.rollback([b"k".as_slice()], 9);        // T1's WAL write/apply failed
	let r = o.check([b"k".as_slice()], 3);   // T2 began at 3 (< 5)
	println!("PROBE_F6 check(k,start=3) after rollback = {:?}", r.is_ok());
	assert!(r.is_err(), "T2 must conflict with T0's commit at 5");
}


#[tokio::test]
async fn probe_d2_open_upper_contents() {
	let (tree, _d, _opts) = mk(2);
	{ let mut t = tree.begin().unwrap(); t.set(b"k", b"v1").unwrap(); t.set(b"b", b"v0").unwrap(); t.commit().await.unwrap(); }
	let mut w = tree.begin().unwrap(); w.set(b"m", b"1").unwrap(); w.set(b"a", b"0").unwrap();
	let mut ro = ReadOptions::new();
	ro.set_iterate_lower_bound(Some(b"b".to_vec()));
	let mut it = w.range_with_options(&ro).unwrap();
	let mut keys = vec![];
	let mut ok = it.seek_first().unwrap();
	while ok { keys.push(it.key().user_key().to_vec()); ok = it.next().unwrap(); }
	println!("PROBE_D2 lower-only keys: {:?}", keys);
	assert_eq!(keys, vec![b"b".to_vec(), b"k".to_vec(), b"m".to_vec()]);
	let ro2 = ReadOptions::new();
	let mut it = w.range_with_options(&ro2).unwrap();
	let mut keys = vec![];
	let mut ok = it.seek_last().unwrap();
	while ok { keys.push(it.key().user_key().to_vec()); ok = it.prev().unwrap(); }
	println!("PROBE_D2 unbounded backward keys: {:?}", keys);
	assert_eq!(keys, vec![b"m".to_vec(), b"k".to_vec(), b"b".to_vec(), b"a".to_vec()]);
	let mut it = w.range(b"z", b"a").unwrap();
	assert!(!it.seek_first().unwrap());
	assert!(!it.seek_last().unwrap());
	let mut it = w.range(b"k", b"k").unwrap();
	assert!(!it.seek_first().unwrap());
}

#[tokio::test]
async fn probe_f8_erased_version_returns() {
	use crate::WriteOptions;
	let d = TempDir::new("probe").unwrap();
	let (tree, opts) = TreeBuilder::new().with_path(d.path().to_path_buf()).with_level_count(2).with_versioning(true, 0).build_with_options().unwrap();
	{ let mut t = tree.begin().unwrap(); t.set_at(b"k", b"v1", 800).unwrap(); t.commit().await.unwrap(); }
	{ let mut t = tree.begin().unwrap(); t.delete_with_options(b"k", &WriteOptions::new().with_timestamp(Some(900))).unwrap(); t.commit().await.unwrap(); }
	{ let mut t = tree.begin().unwrap(); t.set_at(b"k", b"v3", 950).unwrap(); t.commit().await.unwrap(); }
	let before = { let r = tree.begin().unwrap(); r.get_at(b"k", 920).unwrap() };
	tree.flush().unwrap();
	let mid = { let r = tree.begin().unwrap(); r.get_at(b"k", 920).unwrap() };
	tree.compact(strat(&opts)).unwrap();
	let after = { let r = tree.begin().unwrap(); r.get_at(b"k", 920).unwrap() };
	println!("PROBE_F8E get_at(920) before={:?} after_flush={:?} after_compact={:?}", before, mid, after);
	assert_eq!(before, after);
}

#[tokio::test]
async fn probe_f10_l1_key_sorted_seq_unsorted_reopen() {
	let d = TempDir::new("probe").unwrap();
	{
		let (tree, opts) = TreeBuilder::new().with_path(d.path().to_path_buf()).with_level_count(3).build_with_options().unwrap();
		for k in [b"m", b"n", b"o"] { let mut t = tree.begin().unwrap(); t.set(k, b"v1").unwrap(); t.commit().await.unwrap(); }
		tree.flush().unwrap();
		tree.compact(strat(&opts)).unwrap();
		for k in [b"a", b"b", b"c"] { let mut t = tree.begin().unwrap(); t.set(k, b"v2").unwrap(); t.commit().await.unwrap(); }
		tree.flush().unwrap();
		tree.compact(strat(&opts)).unwrap();
		{
			let m = tree.core.inner.level_manifest.read().unwrap();
			for (i, l) in m.levels.get_levels().iter().enumerate() {
				println!("PROBE_F10 level {} tables {:?}", i, l.tables.iter().map(|t| (t.id, t.meta.smallest_seq_num, t.meta.largest_seq_num)).collect::<Vec<_>>());
			}
		}
		tree.close().await.unwrap();
	}
	let r = TreeBuilder::new().with_path(d.path().to_path_buf()).with_level_count(3).build();
	println!("PROBE_F10 reopen: {:?}", r.as_ref().map(|_| "ok").map_err(|e| e.to_string()));
	assert!(r.is_ok());
}
