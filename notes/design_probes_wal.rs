use std::fs::File;
use tempdir::TempDir;
use crate::wal::manager::Wal;
use crate::wal::reader::Reader;
use crate::wal::{Error as WalError, Options, SegmentRef, HEADER_SIZE};

#[test]
fn probe_f11_type_byte_bit_flip_1_to_9_skips_record() {
	let temp_dir = TempDir::new("probe").unwrap();
	let r0: Vec<u8> = vec![7u8; 50];
	let mut r1: Vec<u8> = vec![9u8; 60];
	r1[0] = 0; // first payload byte 0 == CompressionType::None
	let r2: Vec<u8> = vec![5u8; 70];
	let mut wal = Wal::open(temp_dir.path(), Options::default()).unwrap();
	for r in [&r0, &r1, &r2] { wal.append(r).unwrap(); }
	wal.close().unwrap();
	let segments = SegmentRef::read_segments_from_directory(temp_dir.path(), Some("wal")).unwrap();
	let path = segments[0].file_path.clone();
	let mut bytes = std::fs::read(&path).unwrap();
	let pos = HEADER_SIZE + r0.len() + 6;
	assert_eq!(bytes[pos], 1);
	bytes[pos] = 9; // single-bit flip 0b0001 -> 0b1001
	std::fs::write(&path, &bytes).unwrap();
	let mut reader = Reader::new(File::open(&path).unwrap());
	let mut got: Vec<Vec<u8>> = Vec::new();
	let end = loop { match reader.read() { Ok((d, _)) => got.push(d.to_vec()), Err(e) => break e } };
	println!("PROBE_F11 got {} records (lens {:?}), end = {}", got.len(), got.iter().map(|g| g.len()).collect::<Vec<_>>(), end);
	assert!(got.len() <= 1, "a record after the damaged one was returned (not a prefix)");
	assert!(matches!(end, WalError::Corruption(_)));
}
