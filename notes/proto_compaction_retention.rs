// SCRATCH PROTOTYPE from the design round (not framework code).
// Bodies of find_earliest_visible_snapshot / same_visibility_boundary / must_preserve_for_snapshot /
// process_accumulated_versions were pasted mechanically from /repo/src/iter.rs (python brace matching),
// with R-STMT (4 statements), a tuple-destructuring rewrite, and spliced invariants/proof blocks.
// State when saved: 9 verified, 1 error (Vec<u8> clone equality: state outputs over views in the real unit).
use vstd::prelude::*;
use std::sync::Arc;
verus! {
pub enum Error { InvalidArgument(String) }
pub type Result<T> = std::result::Result<T, Error>;
pub type Value = Vec<u8>;
#[derive(Debug, Clone, Copy, PartialEq, Eq)]
pub enum SnapshotVisibility { BoundedBySnapshot(u64), NoActiveSnapshots, NewerThanAllSnapshots }
pub struct InternalKey { pub user_key: Vec<u8>, pub timestamp: u64, pub trailer: u64 }
pub open spec fn seq_of(k: InternalKey) -> u64 { k.trailer / 256 }
pub uninterp spec fn is_hard(k: InternalKey) -> bool;
pub uninterp spec fn is_repl(k: InternalKey) -> bool;
impl InternalKey {
    #[verifier::external_body] pub fn seq_num(&self) -> (r: u64) ensures r == seq_of(*self) { unimplemented!() }
    #[verifier::external_body] pub fn is_hard_delete_marker(&self) -> (r: bool) ensures r == is_hard(*self) { unimplemented!() }
    #[verifier::external_body] pub fn is_replace(&self) -> (r: bool) ensures r == is_repl(*self) { unimplemented!() }
}
impl Clone for InternalKey {
    #[verifier::external_body] fn clone(&self) -> (r: Self) ensures r == *self { unimplemented!() }
}
pub trait LogicalClock { fn now(&self) -> u64; }

pub open spec fn sorted_strict(s: Seq<u64>) -> bool { forall|i: int, j: int| 0 <= i < j < s.len() ==> s[i] < s[j] }
pub open spec fn desc_strict(v: Seq<(InternalKey, Value)>) -> bool { forall|i: int, j: int| 0 <= i < j < v.len() ==> seq_of(v[i].0) > seq_of(v[j].0) }
pub open spec fn vis_ok(s: Seq<u64>, q: u64, r: SnapshotVisibility) -> bool {
    match r {
        SnapshotVisibility::NoActiveSnapshots => s.len() == 0,
        SnapshotVisibility::BoundedBySnapshot(b) => s.len() > 0 && s.contains(b) && b >= q && (forall|k: int| 0 <= k < s.len() && s[k] >= q ==> s[k] >= b),
        SnapshotVisibility::NewerThanAllSnapshots => s.len() > 0 && (forall|k: int| 0 <= k < s.len() ==> s[k] < q),
    }
}
// version j is the one a reader at some registered snapshot (or a new reader) must get
pub open spec fn needed(v: Seq<(InternalKey, Value)>, s: Seq<u64>, j: int) -> bool {
    j == 0 || (0 < j < v.len() && exists|k: int| 0 <= k < s.len() && seq_of(v[j].0) <= #[trigger] s[k] < seq_of(v[j - 1].0))
}
pub open spec fn pick(v: Seq<(InternalKey, Value)>, kept: Seq<bool>, n: int) -> Seq<(InternalKey, Value)>
    decreases n
{
    if n <= 0 { Seq::empty() } else if kept[n - 1] { pick(v, kept, n - 1).push(v[n - 1]) } else { pick(v, kept, n - 1) }
}
proof fn lemma_pick_step(v: Seq<(InternalKey, Value)>, kept: Seq<bool>, i: int)
    requires kept.len() == i + 1, 0 <= i < v.len()
    ensures pick(v, kept, i + 1) == (if kept[i] { pick(v, kept.drop_last(), i).push(v[i]) } else { pick(v, kept.drop_last(), i) })
{
    lemma_pick_prefix(v, kept, kept.drop_last(), i);
}
proof fn lemma_pick_prefix(v: Seq<(InternalKey, Value)>, a: Seq<bool>, b: Seq<bool>, n: int)
    requires 0 <= n <= a.len(), n <= b.len(), forall|k: int| 0 <= k < n ==> a[k] == b[k]
    ensures pick(v, a, n) == pick(v, b, n)
    decreases n
{
    if n > 0 { lemma_pick_prefix(v, a, b, n - 1); }
}
proof fn lemma_needed_not_superseded(v: Seq<(InternalKey, Value)>, s: Seq<u64>, j: int)
    requires needed(v, s, j), 0 <= j < v.len(), desc_strict(v), sorted_strict(s)
    ensures true
{ }

#[verifier::external_body]
fn stmt_any_replace(v: &Vec<(InternalKey, Value)>) -> (r: bool) { unimplemented!() }
#[verifier::external_body]
fn stmt_binary_search(s: &Vec<u64>, x: u64) -> (r: std::result::Result<usize, usize>)
    requires sorted_strict(s@)
    ensures match r {
        Ok(i) => i < s@.len() && s@[i as int] == x,
        Err(i) => i <= s@.len() && (forall|k: int| 0 <= k < i ==> s@[k] < x) && (forall|k: int| i <= k < s@.len() ==> s@[k] > x),
    }
{ unimplemented!() }
pub uninterp spec fn sorted_of(v: Seq<(InternalKey, Value)>) -> Seq<(InternalKey, Value)>;
pub uninterp spec fn dedup_of(v: Seq<(InternalKey, Value)>) -> Seq<(InternalKey, Value)>;
#[verifier::external_body]
fn stmt_sort_desc(v: &mut Vec<(InternalKey, Value)>) ensures final(v)@ == sorted_of(old(v)@), final(v)@.len() == old(v)@.len(), forall|j: int| 0 <= j < final(v)@.len() ==> old(v)@.contains(#[trigger] final(v)@[j]) { unimplemented!() }
#[verifier::external_body]
fn stmt_dedup(v: &mut Vec<(InternalKey, Value)>)
    ensures final(v)@ == dedup_of(old(v)@), desc_strict(final(v)@), old(v)@.len() > 0 ==> final(v)@.len() > 0,
        forall|j: int| 0 <= j < final(v)@.len() ==> old(v)@.contains(#[trigger] final(v)@[j])
{ unimplemented!() }

pub struct CompactionIterator {
	pub is_bottom_level: bool,
	pub accumulated_versions: Vec<(InternalKey, Value)>,
	pub output_versions: Vec<(InternalKey, Value)>,
	pub enable_versioning: bool,
	pub retention_period_ns: u64,
	pub clock: Arc<dyn LogicalClock>,
	pub snapshots: Vec<u64>,
}
impl CompactionIterator {
	fn find_earliest_visible_snapshot(&self, seq_num: u64) -> (r: Result<SnapshotVisibility>)
        requires sorted_strict(self.snapshots@)
        ensures
            self.snapshots@.len() > 0 && seq_num == 0 ==> r is Err,
            !(self.snapshots@.len() > 0 && seq_num == 0) ==> (r matches Ok(x) && vis_ok(self.snapshots@, seq_num, x)),
    {
		// Fast path: no active snapshots
		if self.snapshots.is_empty() {
			return Ok(SnapshotVisibility::NoActiveSnapshots);
		}

		// Validate seq_num is reasonable (not zero, which is invalid)
		if seq_num == 0 {
			return Err(Error::InvalidArgument(
				"Sequence number 0 is invalid for snapshot visibility check".to_string(),
			));
		}

		// Binary search to find earliest snapshot >= seq_num
		// A snapshot S can see version V if V.seq_num <= S.seq_num
		// So the earliest snapshot that can see V is the smallest S where S >= V.seq_num
		match stmt_binary_search(&self.snapshots, seq_num) {
			// Exact match: a snapshot exists at exactly this sequence number.
			// That snapshot can see this version (since snap.seq >= version.seq).
			Ok(idx) => Ok(SnapshotVisibility::BoundedBySnapshot(self.snapshots[idx])),

			// No exact match found. Rust's binary_search returns Err(idx) where idx
			// is the insertion point - the index where seq_num would be inserted
			// to maintain sorted order. This means:
			//   - All snapshots before idx have seq < seq_num (can't see this version)
			//   - All snapshots at/after idx have seq > seq_num (can see this version)
			Err(idx) => {
				if idx < self.snapshots.len() {
					// There's at least one snapshot with seq > seq_num.
					// The snapshot at idx is the earliest one that can see this version.
					Ok(SnapshotVisibility::BoundedBySnapshot(self.snapshots[idx]))
				} else {
					// idx == len means seq_num is greater than ALL snapshot sequence numbers.
					// No existing snapshot can see this version.
					Ok(SnapshotVisibility::NewerThanAllSnapshots)
				}
			}
		}
	}
	fn same_visibility_boundary(
		&self,
		newer_vis: SnapshotVisibility,
		older_vis: SnapshotVisibility,
	) -> (r: bool)
        ensures r == (match (newer_vis, older_vis) {
            (SnapshotVisibility::BoundedBySnapshot(s1), SnapshotVisibility::BoundedBySnapshot(s2)) => s1 == s2,
            (SnapshotVisibility::NewerThanAllSnapshots, SnapshotVisibility::NewerThanAllSnapshots) => true,
            (SnapshotVisibility::NoActiveSnapshots, SnapshotVisibility::NoActiveSnapshots) => true,
            _ => false,
        })
    {
		match (newer_vis, older_vis) {
			// Both bounded by the same snapshot boundary - older is superseded by newer
			(
				SnapshotVisibility::BoundedBySnapshot(s1),
				SnapshotVisibility::BoundedBySnapshot(s2),
			) => s1 == s2,

			// Both newer than all snapshots (no snapshot sees either) - older is hidden
			(
				SnapshotVisibility::NewerThanAllSnapshots,
				SnapshotVisibility::NewerThanAllSnapshots,
			) => true,

			// No active snapshots - all versions in same "boundary" (only keep latest)
			(SnapshotVisibility::NoActiveSnapshots, SnapshotVisibility::NoActiveSnapshots) => true,

			// Different visibility states = different boundaries, must keep both
			_ => false,
		}
	}
	fn must_preserve_for_snapshot(&self, visibility: SnapshotVisibility) -> (r: bool)
        ensures r == (visibility is BoundedBySnapshot)
    {
		matches!(visibility, SnapshotVisibility::BoundedBySnapshot(_))
	}
	fn process_accumulated_versions(&mut self) -> (r: Result<()>)
        requires
            sorted_strict(old(self).snapshots@),
            forall|j: int| 0 <= j < old(self).accumulated_versions@.len() ==> seq_of(#[trigger] old(self).accumulated_versions@[j].0) > 0,
        ensures
            r is Ok && old(self).accumulated_versions@.len() > 0 ==> ({
                let v = dedup_of(sorted_of(old(self).accumulated_versions@));
                exists|kept: Seq<bool>| kept.len() == v.len()
                    && final(self).output_versions@ == old(self).output_versions@ + pick(v, kept, v.len() as int)
                    && (!old(self).is_bottom_level ==> forall|j: int| 0 <= j < v.len() && needed(v, old(self).snapshots@, j) ==> #[trigger] kept[j])
            }),
    {
		if self.accumulated_versions.is_empty() {
			return Ok(());
		}

		// Sort by sequence number (descending) to get the latest version first
		// Higher sequence number = more recent write
		stmt_sort_desc(&mut self.accumulated_versions);

		// Defensive dedup of physical duplicates that share an InternalKey
		// (same user_key implied by accumulation pass + same seq_num).
		//
		// The snapshot-aware logic below decides *semantic* supersession
		// via SnapshotVisibility, but with `enable_versioning=true` and
		// `NoActiveSnapshots` (the default operating mode for an embedded
		// store with no concurrent read transactions), `snapshot_allows_drop`
		// is `false`, so the `superseded` check never marks duplicates as
		// droppable. Two records with identical `(user_key, seq_num)` then
		// flow to the downstream `BlockBuilder::add`, which compares them
		// with `InternalKeyComparator` (user_key ASC, seq_num DESC), gets
		// `Equal` instead of `Less`, and aborts the SST flush with
		// `Error::KeyNotInOrder`. The next compaction sees the poisoned
		// state and escalates to `severity HardError`, blocking every
		// subsequent commit.
		//
		// Whatever upstream path produced the duplicate (WAL replay,
		// memtable rotation race, manual checkpoint replay) the LSM
		// invariant at this point is StrictlySorted: equal-seq dups must
		// not reach the block builder. `dedup_by_key` keeps the first of
		// each consecutive run with equal seq_num — and after the
		// `Reverse(seq_num)` sort that's the highest-seq one (and since
		// these are equal-seq dups, it doesn't matter which physical copy
		// we keep).
		//
		// Reproduced and characterized 2026-05-11 in ckl-sandbox-orchestrator
		// (ckl 0.5.19, surrealkv 0.21.1) — see Koslab-DevOrg/ckl
		// `docs/known-issues.md#KNOWN_ISSUE-001` for the full forensic
		// trail (failing key, fingerprint, recovery cycle).
		stmt_dedup(&mut self.accumulated_versions);

		// Check if latest version is DELETE at bottom level
		// If so, we can completely remove this key from the database
		let ghost v = self.accumulated_versions@;
		let ghost mut kept: Ghost<Seq<bool>> = Ghost(Seq::empty());
		let latest_is_delete_at_bottom = self.is_bottom_level
			&& !self.accumulated_versions.is_empty()
			&& self.accumulated_versions[0].0.is_hard_delete_marker();

		// Check if any version is REPLACE
		// REPLACE semantics: delete all older versions regardless of retention
		let has_set_with_delete = stmt_any_replace(&self.accumulated_versions);

		// Track the visibility of the previous (newer) version we processed.
		// Used to detect when a newer version supersedes an older one.
		let mut newer_version_visibility: Option<SnapshotVisibility> = None;

		// We need to iterate with indices to access accumulated_versions
		let len = self.accumulated_versions.len();
		for i in 0..len
			invariant
				len == self.accumulated_versions@.len(),
				self.accumulated_versions@ == v,
				desc_strict(v), sorted_strict(self.snapshots@),
				self.snapshots@ == old(self).snapshots@,
				self.is_bottom_level == old(self).is_bottom_level,
				self.enable_versioning == old(self).enable_versioning,
				self.retention_period_ns == old(self).retention_period_ns,
				latest_is_delete_at_bottom == (self.is_bottom_level && len > 0 && is_hard(v[0].0)),
				kept@.len() == i,
				self.output_versions@ == old(self).output_versions@ + pick(v, kept@, i as int),
				forall|j: int| 0 <= j < i && needed(v, self.snapshots@, j) && !self.is_bottom_level ==> #[trigger] kept@[j],
				i > 0 ==> (newer_version_visibility matches Some(nv) && vis_ok(self.snapshots@, seq_of(v[i - 1].0), nv)),
				i == 0 ==> newer_version_visibility is None,
				forall|j: int| 0 <= j < len ==> seq_of(#[trigger] v[j].0) > 0,
		{
			let key = &self.accumulated_versions[i].0; let value = &self.accumulated_versions[i].1;
			let is_hard_delete = key.is_hard_delete_marker();
			let is_replace = key.is_replace();
			let is_latest = i == 0;
			let seq_num = key.seq_num();

			// ===== SNAPSHOT-AWARE COMPACTION =====
			//
			// Goal: Drop old versions that no snapshot needs to see.
			//
			// A version is "superseded" when:
			//   1. A newer version of the same key exists
			//   2. Both versions have the same visibility boundary (i.e., visible to the same
			//      earliest snapshot, or both invisible to all snapshots)
			//   3. Therefore, any snapshot that could see the old version will see the newer one
			//      instead - the old version is redundant
			//
			// Exception: When versioning is enabled and no snapshots exist, we keep
			// old versions based on retention policy, not snapshot visibility.

			let current_visibility = self.find_earliest_visible_snapshot(seq_num)?;

			// Check if this version is superseded by a newer version
			let superseded = if let Some(newer_vis) = newer_version_visibility {
				// Can we drop superseded versions in this scenario?
				let snapshot_allows_drop = match current_visibility {
					// Active snapshots exist - use visibility boundaries to decide
					SnapshotVisibility::BoundedBySnapshot(_) => true,
					SnapshotVisibility::NewerThanAllSnapshots => true,
					// No snapshots - only drop if versioning is disabled
					// (with versioning enabled, retention policy decides instead)
					SnapshotVisibility::NoActiveSnapshots => !self.enable_versioning,
				};

				// Superseded = not latest AND in same visibility boundary AND allowed to drop
				snapshot_allows_drop
					&& !is_latest && self.same_visibility_boundary(newer_vis, current_visibility)
			} else {
				// This is the first (newest) version - can't be superseded
				false
			};

			// Is this version required by an active snapshot?
			// (Only matters if not already superseded by a newer version)
			let required_by_snapshot =
				!superseded && self.must_preserve_for_snapshot(current_visibility);

			// ===== DETERMINE IF ENTRY IS STALE =====
			// Stale entries are filtered out during compaction

			let should_mark_stale = if superseded {
				// Superseded: a newer version in the same visibility boundary
				// makes this version redundant - safe to drop
				true
			} else if latest_is_delete_at_bottom {
				// DELETE at bottom level: mark ALL versions as stale
				// The entire key is being removed from the database
				true
			} else if required_by_snapshot {
				// Required by snapshot: an active snapshot needs this version - keep it
				false
			} else if is_latest && !is_hard_delete && !is_replace {
				// Latest PUT: never stale (will be output)
				false
			} else if is_latest && is_hard_delete && self.is_bottom_level {
				// Latest DELETE at bottom: stale (won't be output)
				true
			} else if is_latest && is_hard_delete && !self.is_bottom_level {
				// Latest DELETE at non-bottom: not stale (tombstone preserved)
				false
			} else if is_latest && is_replace {
				// Latest REPLACE: not stale (will be output)
				false
			} else if is_hard_delete {
				// Older DELETE: always stale (only latest tombstone matters)
				true
			} else if has_set_with_delete && !is_replace {
				// REPLACE found: all older non-REPLACE versions are stale
				true
			} else {
				// Older PUT: check versioning and retention
				if !self.enable_versioning {
					// No versioning enabled: only the latest version matters,
					// all older versions are stale
					true
				} else if self.retention_period_ns > 0 {
					// Versioning enabled with retention period:
					// Keep versions within the retention window, drop older ones
					let current_time = self.clock.now();
					let age = current_time.saturating_sub(key.timestamp);
					age > self.retention_period_ns
				} else {
					// Versioning enabled, retention_period_ns == 0:
					// Keep all versions forever
					false
				}
			};

			// ===== DETERMINE IF ENTRY SHOULD BE OUTPUT =====

			let should_output = if superseded {
				// Superseded by newer version: don't output
				false
			} else if latest_is_delete_at_bottom {
				// DELETE at bottom: output NOTHING
				false
			} else if should_mark_stale {
				// Stale entries: don't output
				false
			} else if self.enable_versioning || required_by_snapshot {
				// Versioning enabled or snapshot requires it: output
				true
			} else {
				// No versioning, no snapshot requirement: only output latest
				is_latest
			};

			if should_output {
				self.output_versions.push((key.clone(), value.clone()));
			}
			proof {
				let ghost sn = self.snapshots@;
				assert(vis_ok(sn, seq_of(v[i as int].0), current_visibility));
				if needed(v, sn, i as int) && !self.is_bottom_level {
					if i > 0 {
						let k = choose|k: int| 0 <= k < sn.len() && seq_of(v[i as int].0) <= #[trigger] sn[k] < seq_of(v[i - 1].0);
						assert(sn.len() > 0);
						assert(current_visibility is BoundedBySnapshot);
						let nv = newer_version_visibility->Some_0;
						assert(vis_ok(sn, seq_of(v[i - 1].0), nv));
						assert(!superseded);
						assert(required_by_snapshot);
					}
					assert(should_output);
				}
				let ghost kept_old = kept@;
				kept = Ghost(kept@.push(should_output));
				assert(kept@.drop_last() == kept_old);
				lemma_pick_step(v, kept@, i as int);
				lemma_pick_prefix(v, kept@, kept_old, i as int);
				assert(pick(v, kept@, i + 1) == (if should_output { pick(v, kept_old, i as int).push(v[i as int]) } else { pick(v, kept_old, i as int) }));
				assert(self.output_versions@ =~= old(self).output_versions@ + pick(v, kept@, i + 1));
			}

			// Update for next iteration (this version becomes the "newer" one)
			newer_version_visibility = Some(current_visibility);
		}

		// Clear accumulated versions for the next key
		self.accumulated_versions.clear();
		Ok(())
	}
}
}
fn main(){}
