use std::sync::Arc;
use tempdir::TempDir;
use crate::compaction::leveled::Strategy;
use crate::{LSMIterator, Options, Tree, TreeBuilder, ReadOptions};
use crate::lsm::CompactionOperations;

fn mk(levels: u8) -> (Tree, TempDir, Arc<Options>) {
	let d = TempDir::new("probe").unwrap();
	let (tree, opts) = TreeBuilder::new()
		.with_path(d.path().to_path_buf())
		.with_level_count(levels)
		.build_with_options()
		.unwrap();
	(tree, d, opts)
}
fn strat(opts: &Arc<Options>) -> Arc<Strategy> {
	let mut o = (**opts).clone();
	o.level0_max_files = 1;
	Arc::new(Strategy::from_options(Arc::new(o)))
}

#[tokio::test]
async fn probe_a_bottom_tombstone_older_reader() {
	let (tree, _d, opts) = mk(2);
	{ let mut t = tree.begin().unwrap(); t.set(b"k", b"v1").unwrap(); t.commit().await.unwrap(); }
	let r = tree.begin().unwrap();
	{ let mut t = tree.begin().unwrap(); t.delete(b"k").unwrap(); t.commit().await.unwrap(); }
	tree.flush().unwrap();
	println!("PROBE_A before compact: {:?}", r.get(b"k").unwrap());
	tree.compact(strat(&opts)).unwrap();
	let got = r.get(b"k").unwrap();
	println!("PROBE_A after compact: {:?} l0={} ", got, tree.core.inner.l0_file_count());
	assert_eq!(got, Some(b"v1".to_vec()));
}

#[tokio::test]
async fn probe_b_shared_start_seq() {
	let (tree, _d, opts) = mk(2);
	{ let mut t = tree.begin().unwrap(); t.set(b"k", b"v1").unwrap(); t.commit().await.unwrap(); }
	let r1 = tree.begin().unwrap();
	let r2 = tree.begin().unwrap();
	drop(r1);
	println!("PROBE_B tracker after drop r1: {:?}", tree.core.inner.snapshot_tracker.get_all_snapshots());
	{ let mut t = tree.begin().unwrap(); t.set(b"k", b"v2").unwrap(); t.commit().await.unwrap(); }
	tree.flush().unwrap();
	tree.compact(strat(&opts)).unwrap();
	let got = r2.get(b"k").unwrap();
	println!("PROBE_B after compact: {:?}", got);
	assert_eq!(got, Some(b"v1".to_vec()));
}

#[tokio::test]
async fn probe_c_cursor_unregisters() {
	let (tree, _d, opts) = mk(2);
	{ let mut t = tree.begin().unwrap(); t.set(b"k", b"v1").unwrap(); t.commit().await.unwrap(); }
	let r = tree.begin().unwrap();
	println!("PROBE_C tracker before range: {:?}", tree.core.inner.snapshot_tracker.get_all_snapshots());
	{ let mut it = r.range(b"a", b"z").unwrap(); it.seek_first().unwrap(); }
	println!("PROBE_C tracker after range: {:?}", tree.core.inner.snapshot_tracker.get_all_snapshots());
	{ let mut t = tree.begin().unwrap(); t.set(b"k", b"v2").unwrap(); t.commit().await.unwrap(); }
	tree.flush().unwrap();
	tree.compact(strat(&opts)).unwrap();
	let got = r.get(b"k").unwrap();
	println!("PROBE_C after compact: {:?}", got);
	assert_eq!(got, Some(b"v1".to_vec()));
}

#[tokio::test]
async fn probe_d_range_open_upper() {
	let (tree, _d, _opts) = mk(2);
	{ let mut t = tree.begin().unwrap(); t.set(b"k", b"v1").unwrap(); t.commit().await.unwrap(); }
	let r = tree.begin().unwrap();
	let mut ro = ReadOptions::new();
	ro.set_iterate_lower_bound(Some(b"a".to_vec()));
	let res = std::panic::catch_unwind(std::panic::AssertUnwindSafe(|| {
		let mut it = r.range_with_options(&ro).unwrap();
		let v = it.seek_first().unwrap();
		println!("PROBE_D lower-only valid={}", v);
		v
	}));
	println!("PROBE_D result: {:?}", res.as_ref().map_err(|_| "PANIC"));
	let ro2 = ReadOptions::new();
	let mut it = r.range_with_options(&ro2).unwrap();
	println!("PROBE_D unbounded valid={}", it.seek_first().unwrap());
	let mut w = tree.begin().unwrap(); w.set(b"m", b"1").unwrap();
	let res3 = std::panic::catch_unwind(std::panic::AssertUnwindSafe(|| {
		let mut it = w.range_with_options(&ro).unwrap();
		it.seek_first().unwrap()
	}));
	println!("PROBE_D lower-only with writeset: {:?}", res3.as_ref().map_err(|_| "PANIC"));
	let res4 = std::panic::catch_unwind(std::panic::AssertUnwindSafe(|| {
		let mut it = w.range(b"z", b"a").unwrap();
		it.seek_first().unwrap()
	}));
	println!("PROBE_D inverted with writeset: {:?}", res4.as_ref().map_err(|_| "PANIC"));
	let res2 = std::panic::catch_unwind(std::panic::AssertUnwindSafe(|| {
		let mut it = r.range(b"z", b"a").unwrap();
		it.seek_first().unwrap()
	}));
	println!("PROBE_D inverted: {:?}", res2.as_ref().map_err(|_| "PANIC"));
	assert!(res.is_ok() && res2.is_ok());
}

#[tokio::test]
async fn probe_e_reopen_after_all_dropped() {
	let d = TempDir::new("probe").unwrap();
	{
		let (tree, opts) = TreeBuilder::new().with_path(d.path().to_path_buf()).with_level_count(2).build_with_options().unwrap();
		{ let mut t = tree.begin().unwrap(); t.set(b"k", b"v1").unwrap(); t.commit().await.unwrap(); }
		tree.flush().unwrap();
		{ let mut t = tree.begin().unwrap(); t.delete(b"k").unwrap(); t.commit().await.unwrap(); }
		tree.flush().unwrap();
		tree.compact(strat(&opts)).unwrap();
		println!("PROBE_E l0={} last_seq={}", tree.core.inner.l0_file_count(), tree.core.inner.level_manifest.read().unwrap().get_last_sequence());
		tree.close().await.unwrap();
	}
	let r = TreeBuilder::new().with_path(d.path().to_path_buf()).with_level_count(2).build();
	println!("PROBE_E reopen: {:?}", r.as_ref().map(|_| "ok").map_err(|e| e.to_string()));
	assert!(r.is_ok());
}

#[test]
fn probe_f6_oracle_rollback_forgets_older_stamp() {
	use crate::oracle::CommitOracle;
	let o = CommitOracle::new();
	o.publish([b"k".as_slice()], 5, 1, 0);   // T0 commits k at 5
	o.publish([b"k".as_slice()], 9, 1, 0);   // T1 stamps k at 9
	o.rollback([b"k".as_slice()], 9);        // T1's WAL write/apply failed
	let r = o.check([b"k".as_slice()], 3);   // T2 began at 3 (< 5)
	println!("PROBE_F6 check(k,start=3) after rollback = {:?}", r.is_ok());
	assert!(r.is_err(), "T2 must conflict with T0's commit at 5");
}


#[tokio::test]
async fn probe_d2_open_upper_contents() {
	let (tree, _d, _opts) = mk(2);
	{ let mut t = tree.begin().unwrap(); t.set(b"k", b"v1").unwrap(); t.set(b"b", b"v0").unwrap(); t.commit().await.unwrap(); }
	let mut w = tree.begin().unwrap(); w.set(b"m", b"1").unwrap(); w.set(b"a", b"0").unwrap();
	let mut ro = ReadOptions::new();
	ro.set_iterate_lower_bound(Some(b"b".to_vec()));
	let mut it = w.range_with_options(&ro).unwrap();
	let mut keys = vec![];
	let mut ok = it.seek_first().unwrap();
	while ok { keys.push(it.key().user_key().to_vec()); ok = it.next().unwrap(); }
	println!("PROBE_D2 lower-only keys: {:?}", keys);
	assert_eq!(keys, vec![b"b".to_vec(), b"k".to_vec(), b"m".to_vec()]);
	let ro2 = ReadOptions::new();
	let mut it = w.range_with_options(&ro2).unwrap();
	let mut keys = vec![];
	let mut ok = it.seek_last().unwrap();
	while ok { keys.push(it.key().user_key().to_vec()); ok = it.prev().unwrap(); }
	println!("PROBE_D2 unbounded backward keys: {:?}", keys);
	assert_eq!(keys, vec![b"m".to_vec(), b"k".to_vec(), b"b".to_vec(), b"a".to_vec()]);
	let mut it = w.range(b"z", b"a").unwrap();
	assert!(!it.seek_first().unwrap());
	assert!(!it.seek_last().unwrap());
	let mut it = w.range(b"k", b"k").unwrap();
	assert!(!it.seek_first().unwrap());
}

#[tokio::test]
async fn probe_f8_erased_version_returns() {
	use crate::WriteOptions;
	let d = TempDir::new("probe").unwrap();
	let (tree, opts) = TreeBuilder::new().with_path(d.path().to_path_buf()).with_level_count(2).with_versioning(true, 0).build_with_options().unwrap();
	{ let mut t = tree.begin().unwrap(); t.set_at(b"k", b"v1", 800).unwrap(); t.commit().await.unwrap(); }
	{ let mut t = tree.begin().unwrap(); t.delete_with_options(b"k", &WriteOptions::new().with_timestamp(Some(900))).unwrap(); t.commit().await.unwrap(); }
	{ let mut t = tree.begin().unwrap(); t.set_at(b"k", b"v3", 950).unwrap(); t.commit().await.unwrap(); }
	let before = { let r = tree.begin().unwrap(); r.get_at(b"k", 920).unwrap() };
	tree.flush().unwrap();
	let mid = { let r = tree.begin().unwrap(); r.get_at(b"k", 920).unwrap() };
	tree.compact(strat(&opts)).unwrap();
	let after = { let r = tree.begin().unwrap(); r.get_at(b"k", 920).unwrap() };
	println!("PROBE_F8E get_at(920) before={:?} after_flush={:?} after_compact={:?}", before, mid, after);
	assert_eq!(before, after);
}

#[tokio::test]
async fn probe_f10_l1_key_sorted_seq_unsorted_reopen() {
	let d = TempDir::new("probe").unwrap();
	{
		let (tree, opts) = TreeBuilder::new().with_path(d.path().to_path_buf()).with_level_count(3).build_with_options().unwrap();
		for k in [b"m", b"n", b"o"] { let mut t = tree.begin().unwrap(); t.set(k, b"v1").unwrap(); t.commit().await.unwrap(); }
		tree.flush().unwrap();
		tree.compact(strat(&opts)).unwrap();
		for k in [b"a", b"b", b"c"] { let mut t = tree.begin().unwrap(); t.set(k, b"v2").unwrap(); t.commit().await.unwrap(); }
		tree.flush().unwrap();
		tree.compact(strat(&opts)).unwrap();
		{
			let m = tree.core.inner.level_manifest.read().unwrap();
			for (i, l) in m.levels.get_levels().iter().enumerate() {
				println!("PROBE_F10 level {} tables {:?}", i, l.tables.iter().map(|t| (t.id, t.meta.smallest_seq_num, t.meta.largest_seq_num)).collect::<Vec<_>>());
			}
		}
		tree.close().await.unwrap();
	}
	let r = TreeBuilder::new().with_path(d.path().to_path_buf()).with_level_count(3).build();
	println!("PROBE_F10 reopen: {:?}", r.as_ref().map(|_| "ok").map_err(|e| e.to_string()));
	assert!(r.is_ok());
}

fn copy_dir_all(src: &std::path::Path, dst: &std::path::Path) {
	std::fs::create_dir_all(dst).unwrap();
	for entry in std::fs::read_dir(src).unwrap() {
		let entry = entry.unwrap();
		let target = dst.join(entry.file_name());
		if entry.file_type().unwrap().is_dir() { copy_dir_all(&entry.path(), &target); } else { std::fs::copy(entry.path(), &target).unwrap(); }
	}
}

#[tokio::test(flavor = "multi_thread", worker_threads = 2)]
async fn probe_f13_arenafull_batch_logged_in_old_wal() {
	const MEM: usize = 128 * 1024;
	let live = TempDir::new("probe").unwrap();
	let crash = TempDir::new("probe").unwrap();
	let open = |p: &std::path::Path| TreeBuilder::new().with_path(p.to_path_buf()).with_max_memtable_size(MEM).build().unwrap();
	let tree = open(live.path());
	let small = vec![b's'; 1024];
	let mut n = 0;
	while tree.core.inner.active_memtable.read().unwrap().size() < MEM * 3 / 4 {
		let mut t = tree.begin().unwrap(); t.set(format!("small_{n:05}").into_bytes(), small.clone()).unwrap(); t.commit().await.unwrap(); n += 1;
	}
	let big = vec![b'B'; MEM / 2];
	{ let mut t = tree.begin().unwrap(); t.set(b"the_big_one".to_vec(), big.clone()).unwrap(); t.commit().await.unwrap(); }
	println!("PROBE_F13 immutables={} active_wal={}", tree.core.inner.immutable_count(), tree.core.inner.wal.read().get_active_log_number());
	// flush the rotated (old) memtable and let the WAL clean-up run
	for _ in 0..50 {
		if tree.core.inner.immutable_count() == 0 { break; }
		let _ = tree.core.inner.compact_memtable();
		tokio::time::sleep(std::time::Duration::from_millis(50)).await;
	}
	tokio::time::sleep(std::time::Duration::from_millis(500)).await;
	let wals: Vec<_> = std::fs::read_dir(live.path().join("wal")).unwrap().map(|e| e.unwrap().file_name()).collect();
	println!("PROBE_F13 after flush: immutables={} wal files={:?} log_number={}", tree.core.inner.immutable_count(), wals, tree.core.inner.level_manifest.read().unwrap().get_log_number());
	let image = crash.path().join("image");
	copy_dir_all(live.path(), &image);
	let rec = open(&image);
	let got = { let t = rec.begin().unwrap(); t.get(b"the_big_one".to_vec()).unwrap() };
	println!("PROBE_F13 recovered the_big_one present = {}", got.is_some());
	assert!(got.as_deref() == Some(&big[..]), "acknowledged commit lost after crash");
}

#[tokio::test(flavor = "multi_thread", worker_threads = 2)]
async fn probe_f14_commit_after_wal_repair_survives() {
	let d = TempDir::new("probe").unwrap();
	let open = |p: &std::path::Path| TreeBuilder::new().with_path(p.to_path_buf()).with_flush_on_close(false).build().unwrap();
	{
		let tree = open(d.path());
		for i in 0..3 { let mut t = tree.begin().unwrap(); t.set(format!("c{i}").into_bytes(), vec![b'v'; 100]).unwrap(); t.commit().await.unwrap(); }
		tree.close().await.unwrap();
	}
	// damage the last record of the newest WAL segment (flip one payload byte near the end)
	let wal_dir = d.path().join("wal");
	let mut segs: Vec<_> = std::fs::read_dir(&wal_dir).unwrap().map(|e| e.unwrap().path()).collect();
	segs.sort();
	let seg = segs.last().unwrap().clone();
	let mut bytes = std::fs::read(&seg).unwrap();
	let n = bytes.len();
	bytes[n - 10] ^= 0xff;
	std::fs::write(&seg, &bytes).unwrap();
	println!("PROBE_F14 damaged {:?} (len {})", seg.file_name().unwrap(), n);
	{
		let tree = open(d.path());
		let r = tree.begin().unwrap();
		println!("PROBE_F14 after repair: c0={} c1={} c2={}", r.get(b"c0".to_vec()).unwrap().is_some(), r.get(b"c1".to_vec()).unwrap().is_some(), r.get(b"c2".to_vec()).unwrap().is_some());
		drop(r);
		let mut t = tree.begin().unwrap(); t.set(b"c4".to_vec(), vec![b'w'; 100]).unwrap(); t.commit().await.unwrap();
		let wals: Vec<_> = std::fs::read_dir(&wal_dir).unwrap().map(|e| { let e = e.unwrap(); (e.file_name(), e.metadata().unwrap().len()) }).collect();
		println!("PROBE_F14 wal files after post-repair commit: {:?}", wals);
		tree.close().await.unwrap();
	}
	let tree = open(d.path());
	let r = tree.begin().unwrap();
	let got = r.get(b"c4".to_vec()).unwrap();
	println!("PROBE_F14 after second reopen: c4 present = {}", got.is_some());
	assert!(got.is_some(), "commit acknowledged after a WAL repair is lost on the next open");
}

#[tokio::test(flavor = "multi_thread", worker_threads = 2)]
async fn probe_f15_split_recovery_keeps_tail_and_new_commits() {
	let d = TempDir::new("probe").unwrap();
	let open = |p: &std::path::Path, mem: usize| TreeBuilder::new().with_path(p.to_path_buf()).with_max_memtable_size(mem).with_flush_on_close(false).build().unwrap();
	{
		let tree = open(d.path(), 8 * 1024 * 1024);
		for i in 0..60 { let mut t = tree.begin().unwrap(); t.set(format!("k{i:03}").into_bytes(), vec![b'v'; 2048]).unwrap(); t.commit().await.unwrap(); }
		tree.close().await.unwrap();
	}
	let wal_dir = d.path().join("wal");
	let ls = |tag: &str| { let mut v: Vec<_> = std::fs::read_dir(&wal_dir).unwrap().map(|e| { let e = e.unwrap(); (e.file_name().into_string().unwrap(), e.metadata().unwrap().len()) }).collect(); v.sort(); println!("PROBE_F15 {tag}: wal files {:?}", v); };
	ls("before reopen");
	{
		// reopen with a memtable much smaller than the segment: replay must split it
		let tree = open(d.path(), 64 * 1024);
		tokio::time::sleep(std::time::Duration::from_millis(300)).await;
		ls("after split recovery");
		let r = tree.begin().unwrap();
		let missing: Vec<_> = (0..60).filter(|i| r.get(format!("k{i:03}").into_bytes()).unwrap().is_none()).collect();
		println!("PROBE_F15 right after recovery missing keys: {:?} log_number={}", missing, tree.core.inner.level_manifest.read().unwrap().get_log_number());
		drop(r);
		let mut t = tree.begin().unwrap(); t.set(b"after".to_vec(), vec![b'w'; 100]).unwrap(); t.commit().await.unwrap();
		ls("after one more commit");
		tree.close().await.unwrap();
	}
	let tree = open(d.path(), 64 * 1024);
	let r = tree.begin().unwrap();
	let missing: Vec<_> = (0..60).filter(|i| r.get(format!("k{i:03}").into_bytes()).unwrap().is_none()).collect();
	let after = r.get(b"after".to_vec()).unwrap().is_some();
	println!("PROBE_F15 after second reopen: missing keys {:?}, 'after' present = {}", missing, after);
	assert!(missing.is_empty() && after);
}
