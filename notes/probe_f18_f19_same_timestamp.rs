use crate::TreeBuilder;
use tempdir::TempDir;

#[tokio::test]
async fn probe_same_ts() {
	for idx in [false, true] {
		let d = TempDir::new("p").unwrap();
		let tree = TreeBuilder::new().with_path(d.path().to_path_buf()).with_versioning(true, 0).with_versioned_index(idx).build().unwrap();
		let mut t = tree.begin().unwrap(); t.set_at(b"k".to_vec(), b"v1".to_vec(), 100).unwrap(); t.commit().await.unwrap();
		let mut t = tree.begin().unwrap(); t.set_at(b"k".to_vec(), b"v2".to_vec(), 100).unwrap(); t.commit().await.unwrap();
		let r = tree.begin().unwrap();
		println!("PROBE idx={idx} get={:?} get_at(100)={:?} get_at(150)={:?}", r.get(b"k".to_vec()).unwrap().map(|v| String::from_utf8(v).unwrap()), r.get_at(b"k".to_vec(), 100).unwrap().map(|v| String::from_utf8(v).unwrap()), r.get_at(b"k".to_vec(), 150).unwrap().map(|v| String::from_utf8(v).unwrap()));
		drop(r);
		tree.flush().unwrap();
		let r = tree.begin().unwrap();
		println!("PROBE idx={idx} after flush get={:?} get_at(100)={:?}", r.get(b"k".to_vec()).unwrap().map(|v| String::from_utf8(v).unwrap()), r.get_at(b"k".to_vec(), 100).unwrap().map(|v| String::from_utf8(v).unwrap()));
	}
}
