#!/usr/bin/env python3
"""setup_cmd: nothing to build (python3 + pre-installed verus/kani); verify the tools are reachable."""
import shutil, subprocess, sys
ok = True
for t in ("verus", "cargo", "cargo-kani"):
    p = shutil.which(t)
    print("%-12s %s" % (t, p))
    ok = ok and bool(p)
r = subprocess.run(["verus", "--version"], capture_output=True, text=True)
print(r.stdout.strip()[:200])
sys.exit(0 if ok else 1)
