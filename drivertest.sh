#!/bin/bash
# usage: drivertest.sh <patch.diff> <driver> [more drivers]  -- applies a change to /repo, runs bounded drivers, undoes it
set -u
patch=$1; shift
cd /repo && git apply "$patch" || { echo "patch does not apply"; exit 3; }
python3 - "$@" <<'PY'
import sys,json
sys.path.insert(0,'/verif/extract')
import replay_run
r=replay_run.run_drivers('/repo','/verif',sys.argv[1:],'/var/tmp/drivertest-out',timeout=400)
print("error:",r['error'],"wall: %.1f"%r['wall'])
for k,v in r['results'].items():
    print(k,"cases",v.get('cases'),"failures",len(v.get('failures',[])))
    for f in v.get('failures',[])[:2]: print("   ",json.dumps(f)[:400])
if not r['results']:
    print(open('/var/tmp/drivertest-out/replay.log').read()[-1500:])
PY
cd /repo && git checkout -- . && git status --short | head -3
rm -rf /var/tmp/drivertest-out
