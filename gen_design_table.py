#!/usr/bin/env python3
"""Rewrites the 'as built' table (section 9.4 of DESIGN.md) from props.json so that it cannot drift."""
import json, os, re
V = os.path.dirname(os.path.abspath(__file__))
props = json.load(open(os.path.join(V, "props.json")))
allp = [json.loads(l)["id"] for l in open(os.path.join(V, "properties.jsonl"))]
NOT_DECIDED = {
 "C01": "interleavings; Table::get trusted; lock contents frozen during one Snapshot::get; the k-way merge below the scan filters only bounded",
 "C02": "power-loss model beyond a torn last record, crashes INSIDE an operation, concurrent committers; components of the flush / start-up protocols are opaque",
 "C03": "crash inside flush / manifest switch / compaction; replay_wal itself only bounded",
 "C04": "interleavings of several committers (pipeline contract is sequential); F6 open",
 "C05": "real concurrency (apply order vs WAL order); publication protocol and dequeue_applied only sequentially",
 "C06": "partition_point search (window assumed well-formed); metamorphic equality only via drivers",
 "C07": "crash inside an operation; CoreInner::new (manifest load order) only via drivers",
 "C08": "the BTreeMap itself (trusted std semantics), get_at's write-set rule, the one-line wrappers: bounded only; the snapshot side of the range cursor is opaque in unit ws_merge",
 "C09": "the k-way merge of the SNAPSHOT cursor (tables / memtables) only bounded: > 3 keys, > 3 cursor calls, several tables per level, block boundaries; the write-set merge on top of it is under contract",
 "C10": "backward path of the history cursor, Transaction::get_at and the B+tree index back end only bounded",
 "C11": "GC predicate text (closure), VLog::append (rotation, locks), readers racing with clean-up",
 "C12": "writer/reader round-trip as a LEMMA (bounded by log_enum instead), compression; replay_wal only bounded",
 "C13": "block / index cursors and bloom filter only bounded",
 "C14": "the file copies; components of the checkpoint and restore protocols are opaque; readers concurrent with a restore",
 "C15": "faults outside the WAL (table, manifest, value log), short writes; F25 open; partial effects of a failing memtable apply",
 "C16": "CRC detection capability (assumed)",
 "C18": "tree-level algorithms (split, merge, redistribution, overflow chains): sampled by the driver only",
 "C19": "other processes, process death; the shutdown started by Drop for Tree: driver only",
}
rows = ["| Prop | Level | Units (Verus) | Kani complete | Bounded drivers (tier) | Not decided |", "|---|---|---|---|---|---|"]
for p in allp:
    if p not in props:
        continue
    c = props[p]
    units = ", ".join(c.get("units") or []) or "-"
    kani = ", ".join(h["name"].replace("_complete", "") for h in ((c.get("kani") or {}).get("harnesses") or [])) or "-"
    dr = ", ".join("%s (%s)" % (b["driver"], b.get("tier", "thorough")) for b in (c.get("bounded") or [])) or "-"
    lvl = c.get("level", "proof") + (" + bounded" if c.get("bounded") and c.get("level", "proof") == "proof" else "")
    rows.append("| %s | %s | %s | %s | %s | %s |" % (p, lvl, units, kani, dr, NOT_DECIDED.get(p, "")))
table = "\n".join(rows)
d = open(os.path.join(V, "DESIGN.md")).read()
a = d.index("### 9.4 Per property, as built")
b = d.index("### 9.5 Self-tests of the checks")
d = d[:a] + "### 9.4 Per property, as built\n\n(generated from props.json by gen_design_table.py)\n\n" + table + "\n\n" + d[b:]
open(os.path.join(V, "DESIGN.md"), "w").write(d)
print(table[:400])
