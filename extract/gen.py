"""Generator: contract template (.vspec) + /repo sources -> one Verus file.

The template carries only contracts (signatures with requires/ensures, loop
invariants, proof blocks, spec functions, lemmas, trusted prelude).  Function
*bodies*, struct field types, enums and constants are pasted from the real
sources on every run.  See DESIGN.md section 3.2 for the closed list of
normalisation rules; every application is logged.
"""
import hashlib
import os
import re
import subprocess

from rustsrc import Source, AnchorLost, norm_ws, mask, match_close

RULES = {"R-VIS", "R-PROJ", "R-LOCK", "R-ITER", "R-REFPAT", "R-DBG", "R-ERRFMT", "R-STMT",
         "R-DROP", "R-UNSAFE", "R-WORLD", "R-SELF", "R-GENERIC", "R-CAST", "R-RET", "R-TRAIT", "R-ASYNC"}


class TemplateError(Exception):
    pass


class Unsupported(Exception):
    pass


def _blob_id(repo, rel):
    try:
        return subprocess.run(["git", "-C", repo, "hash-object", os.path.join(repo, rel)], capture_output=True,
                              text=True, check=True).stdout.strip()
    except Exception:
        return "unknown"


class Gen:
    def __init__(self, repo, verif, excuses=None):
        self.repo = repo
        self.verif = verif
        self.sources = {}
        self.out = []            # list of (text_line, origin dict)
        self.log = []            # rewrite log
        self.functions = []      # functions under contract
        self.items = []          # structs/enums/consts extracted
        self.excuses = set(excuses or [])
        self.kf_labels = {}      # label -> [finding ids]
        self.cur_fn = None
        self.meta = {}
        self.pins = []           # pinned trusted statements (R-STMT): (fn, rule, pattern, sha)

    def src(self, rel):
        if rel not in self.sources:
            p = os.path.join(self.repo, rel)
            if not os.path.exists(p):
                raise AnchorLost("source file %s missing" % rel)
            self.sources[rel] = Source(rel, open(p).read())
        return self.sources[rel]

    def emit(self, text, **origin):
        for ln in text.split("\n"):
            self.out.append((ln, dict(origin)))

    # ------------------------------------------------------------------ template
    def run(self, tmpl_path):
        lines = open(tmpl_path).read().split("\n")
        self._process(lines, os.path.relpath(tmpl_path, self.verif))
        return self

    def _process(self, lines, tname):
        i = 0
        n = len(lines)
        while i < n:
            ln = lines[i]
            s = ln.strip()
            if not s.startswith("//@"):
                self.emit(self._kf_line(ln, lines, i), kind="template", tmpl=tname, tline=i + 1, fn=self.cur_fn)
                i += 1
                continue
            d = s[3:].strip()
            if d.startswith("kf "):
                i += 1            # consumed by _kf_line look-behind
                continue
            if d.startswith("unit ") or d.startswith("property ") or d.startswith("expect_min_functions ") or d.startswith("note "):
                k, v = d.split(" ", 1)
                self.meta.setdefault(k, []).append(v.strip())
                i += 1
            elif d.startswith("include "):
                p = os.path.join(self.verif, d[8:].strip())
                self._process(open(p).read().split("\n"), os.path.relpath(p, self.verif))
                i += 1
            elif d.startswith("const ") or d.startswith("type "):
                kw = d.split(" ", 1)[0]
                rel, name = [x.strip() for x in d[len(kw) + 1:].split("::", 1)]
                evalit = name.endswith(" eval")
                if evalit:
                    name = name[:-5].strip()
                it = self.src(rel).find_item(kw, name)
                txt = re.sub(r"^(pub(\([a-z]+\))?\s+)?", "pub ", it["text"].strip())
                if evalit:
                    # R-CAST: a constant integer expression is replaced by its value (evaluated here, exactly)
                    mm = re.match(r"(pub const \w+: (u8|u16|u32|u64|usize) = )(.*);$", txt, re.S)
                    if not mm or not re.fullmatch(r"[0-9a-fA-Fx_\s<>+\-*()]+", mm.group(3)):
                        raise AnchorLost("%s: const %s is not a plain integer expression: %s" % (rel, name, txt))
                    val = eval(mm.group(3).replace("_", ""), {"__builtins__": {}}, {})
                    bits = {"u8": 8, "u16": 16, "u32": 32, "u64": 64, "usize": 64}[mm.group(2)]
                    if not (0 <= val < (1 << bits)):
                        raise AnchorLost("%s: const %s overflows its type" % (rel, name))
                    self.log.append({"rule": "R-CAST", "file": rel, "line": it["line"], "what": "const %s = `%s` replaced by its value %d" % (name, mm.group(3).strip(), val)})
                    txt = "%s%d; // = %s" % (mm.group(1), val, " ".join(mm.group(3).split()))
                self.emit(txt, kind="extracted", src=rel, sline=it["line"])
                self.items.append({"kind": kw, "file": rel, "name": name, "line": it["line"]})
                self.log.append({"rule": "R-VIS", "file": rel, "line": it["line"], "what": "%s %s made pub" % (kw, name)})
                i += 1
            elif d.startswith("enumproj "):
                m = re.match(r"enumproj\s+(\S+)\s*::\s*(\w+)\s*::\s*(.*?)(?:\s+derive\((.*)\))?$", d)
                rel, name, wanted, der = m.group(1), m.group(2), m.group(3).split(), m.group(4)
                it = self.src(rel).find_item("enum", name)
                bm = it["body_msk"]
                body = it["body"]
                depth = 0
                start = 0
                parts = []
                for k, ch in enumerate(bm):
                    if ch in "([{":
                        depth += 1
                    elif ch in ")]}":
                        depth -= 1
                    elif ch == "," and depth == 0:
                        parts.append((start, k))
                        start = k + 1
                parts.append((start, len(bm)))
                variants = {}
                for a, b in parts:
                    seg = "".join(c if mc != " " or c.isspace() else " " for c, mc in zip(body[a:b], bm[a:b]))
                    seg = " ".join(re.sub(r"#\[[^\]]*\]", " ", seg).split())
                    mm = re.match(r"(\w+)", seg)
                    if mm:
                        variants[mm.group(1)] = seg
                missing = [w for w in wanted if w not in variants]
                if missing:
                    raise AnchorLost("%s: enum %s lacks variants %s" % (rel, name, missing))
                if der:
                    self.emit("#[derive(%s)]" % der, kind="template")
                self.emit("pub enum %s {\n%s\n}" % (name, "\n".join("    %s," % variants[w] for w in wanted)), kind="extracted", src=rel, sline=it["line"])
                self.items.append({"kind": "enum", "file": rel, "name": name, "line": it["line"], "variants_kept": wanted})
                self.log.append({"rule": "R-PROJ", "file": rel, "line": it["line"], "what": "enum %s projected to variants %s (of %d)" % (name, wanted, len(variants))})
                i += 1
            elif d.startswith("enum "):
                m = re.match(r"enum\s+(\S+)\s*::\s*(\w+)(?:\s+derive\((.*)\))?$", d)
                rel, name, der = m.group(1), m.group(2), m.group(3)
                it = self.src(rel).find_item("enum", name)
                body = re.sub(r"(?m)^\s*///.*$", "", it["body"])
                body = re.sub(r"(?m)^\s*//.*$", "", body)
                body = re.sub(r"(?m)^\s*#\[[^\]]*\]\s*$", "", body)      # attributes on variants (e.g. #[default]) are dropped with the derive list
                body = "\n".join(l for l in body.split("\n") if l.strip())
                if der:
                    self.emit("#[derive(%s)]" % der, kind="template")
                self.emit("pub enum %s {\n%s\n}" % (name, body), kind="extracted", src=rel, sline=it["line"])
                self.items.append({"kind": "enum", "file": rel, "name": name, "line": it["line"]})
                self.log.append({"rule": "R-VIS", "file": rel, "line": it["line"], "what": "enum %s made pub; derives reduced to (%s)" % (name, der or "")})
                i += 1
            elif d.startswith("struct "):
                i = self._struct(d, lines, i)
            elif d.startswith("fn "):
                i = self._fn(d, lines, i, tname)
            else:
                raise TemplateError("%s:%d: unknown directive %r" % (tname, i + 1, d))

    def _kf_line(self, ln, lines, i):
        """A clause line preceded by `//@kf <ID> `prefix`` is emitted unchanged
        normally; in excuse mode for <ID> the clause is guarded by the prefix."""
        if i == 0:
            return ln
        prev = lines[i - 1].strip()
        if not prev.startswith("//@kf "):
            return ln
        m = re.match(r"//@kf\s+(\S+)\s+`(.*)`\s*$", prev)
        if not m:
            raise TemplateError("bad //@kf directive: %s" % prev)
        fid, prefix = m.group(1), m.group(2)
        lab = re.search(r"/\*#(\w+)\*/", ln)
        if not lab:
            raise TemplateError("//@kf must precede a labelled clause line: %s" % ln)
        self.kf_labels.setdefault((self.cur_fn, lab.group(1)), []).append(fid)
        if fid not in self.excuses:
            return ln
        core = ln[:ln.index("/*#")].rstrip()
        comma = core.endswith(",")
        core = core.rstrip(",")
        indent = re.match(r"\s*", core).group(0)
        return "%s%s (%s)%s /*#%s*/ /*excused:%s*/" % (indent, prefix, core.strip(), "," if comma else "", lab.group(1), fid)

    def _struct(self, d, lines, i):
        m = re.match(r"struct\s+(\S+)\s*::\s*(\w+)\s*::\s*(.*)$", d)
        if not m:
            raise TemplateError("bad struct directive: %s" % d)
        rel, name, fl = m.group(1), m.group(2), m.group(3).split()
        fields, line = self.src(rel).struct_fields(name)
        have = {f: (t, a) for f, t, a in fields}
        out = []
        dropped = [f for f, _, _ in fields]
        for spec in fl:
            if "=" in spec:
                f, newty = spec.split("=", 1)
            else:
                f, newty = spec, None
            if f not in have:
                raise AnchorLost("%s: struct %s has no field %s" % (rel, name, f))
            dropped.remove(f)
            ty = have[f][0]
            if newty:
                self.log.append({"rule": "R-PROJ", "file": rel, "line": line, "what": "%s.%s: type `%s` replaced by opaque `%s`" % (name, f, ty, newty)})
                ty = newty
            out.append("    pub %s: %s," % (f, ty))
        i += 1
        extra = []
        header_extra = ""
        while i < len(lines) and lines[i].strip().startswith("//@+"):
            t = lines[i].strip()[4:].strip()
            if t.startswith("generics "):
                header_extra = t[9:].strip()
            else:
                extra.append("    " + t)
            i += 1
        dropped = [f for f in dropped if not any("cfg(debug_assertions)" in a for a in have[f][1])]
        self.emit("pub struct %s%s {\n%s\n}" % (name, header_extra, "\n".join(out + extra)), kind="extracted", src=rel, sline=line)
        self.items.append({"kind": "struct", "file": rel, "name": name, "line": line, "fields_kept": [x.split("=")[0] for x in fl], "fields_dropped": dropped})
        self.log.append({"rule": "R-PROJ", "file": rel, "line": line,
                         "what": "struct %s projected to fields %s (dropped: %s; ghost/extra: %d)" % (name, [x.split("=")[0] for x in fl], dropped, len(extra))})
        return i

    def _auto_const(self, S, name, depth):
        """value, type, line of a plain integer constant of source file S (other constants of the file may occur in its
        expression), or None"""
        if depth > 4:
            return None
        try:
            it = S.find_item("const", name)
        except AnchorLost:
            return None
        mm = re.match(r"(?:pub(?:\([a-z]+\))?\s+)?const \w+: (u8|u16|u32|u64|usize) = (.*);$", it["text"].strip(), re.S)
        if not mm:
            return None
        expr = mm.group(2)
        for inner in sorted(set(re.findall(r"\b[A-Z][A-Z0-9_]{2,}\b", expr))):
            r = self._auto_const(S, inner, depth + 1)
            if r is None:
                return None
            expr = re.sub(r"\b%s\b" % inner, "(%d)" % r[0], expr)
        expr = re.sub(r"\bas (u8|u16|u32|u64|usize)\b", "", expr)
        if not re.fullmatch(r"[0-9a-fA-Fx_\s<>+\-*()]+", expr):
            return None
        val = eval(expr.replace("_", ""), {"__builtins__": {}}, {})
        bits = {"u8": 8, "u16": 16, "u32": 32, "u64": 64, "usize": 64}[mm.group(1)]
        if not (0 <= val < (1 << bits)):
            return None
        return val, mm.group(1), it["line"]

    # ------------------------------------------------------------------ function holes
    def _fn(self, d, lines, i, tname):
        parts = [x.strip() for x in d[3:].split("::")]
        # file :: impl-spec :: name    (impl-spec may itself contain '::' in trait paths -> join middle)
        rel, name = parts[0], parts[-1]
        impl_spec = "::".join(parts[1:-1]).strip()
        i += 1
        sig_expect = []
        sig_regex = None
        header = []
        while i < len(lines) and lines[i].strip() != "//@body":
            s = lines[i].strip()
            if s.startswith("//@sig~"):
                sig_regex = s[7:].strip()
            elif s.startswith("//@sig"):
                sig_expect.append(s[6:].strip())
            elif s.startswith("//@kf "):
                pass
            elif s.startswith("//@"):
                raise TemplateError("%s:%d: unexpected directive in fn header: %s" % (tname, i + 1, s))
            else:
                header.append((lines[i], i))
            i += 1
        if i >= len(lines):
            raise TemplateError("%s: //@fn %s without //@body" % (tname, name))
        hdr_lines_all = lines
        i += 1
        directives = []
        while i < len(lines) and lines[i].strip() != "//@endfn":
            s = lines[i].strip()
            if s.startswith("//@rw ") or s.startswith("//@rwre "):
                m = re.match(r"//@(rw|rwre)\s+(\S+)\s+(?:x(\d+|\*|\?)\s+)?`(.*)`\s*=>\s*`(.*)`\s*$", s)
                if not m:
                    raise TemplateError("%s:%d: bad rewrite directive" % (tname, i + 1))
                kind, rule, cnt, pat, rep = m.groups()
                if rule not in RULES:
                    raise TemplateError("%s:%d: unknown rule %s" % (tname, i + 1, rule))
                directives.append(("rw", kind, rule, cnt or "1", pat.replace("\\n", "\n").replace("\\t", "\t"), rep.replace("\\n", "\n").replace("\\t", "\t"), i + 1))
                i += 1
            elif s.startswith("//@loop "):
                nth = int(s.split()[1])
                blk = []
                i += 1
                while lines[i].strip() != "//@endloop":
                    blk.append(lines[i])
                    i += 1
                i += 1
                directives.append(("loop", nth, blk, i))
            elif s.startswith("//@proof ") or s.startswith("//@proof? "):
                m = re.match(r"//@proof(\??)\s+(after|before|start|end)(?:#(\d+))?(?:\s+`(.*)`)?\s*$", s)
                if not m:
                    raise TemplateError("%s:%d: bad proof directive" % (tname, i + 1))
                blk = []
                i += 1
                while lines[i].strip() != "//@endproof":
                    blk.append(lines[i])
                    i += 1
                i += 1
                anchor = m.group(4).replace("\\n", "\n").replace("\\t", "\t") if m.group(4) else None
                directives.append(("proof", m.group(2), anchor, blk, i, int(m.group(3)) if m.group(3) else None, bool(m.group(1))))
            elif s == "" or s.startswith("// "):
                i += 1
            else:
                raise TemplateError("%s:%d: unexpected line in fn directives: %s" % (tname, i + 1, s))
        i += 1  # skip //@endfn

        S = self.src(rel)
        f = S.find_fn(impl_spec or "-", name)
        real_sig = norm_ws(re.sub(r"(?m)^\s*#\[[^\]]*\]\s*$", "", f["sig"]))
        if sig_regex is not None:
            if not re.fullmatch(sig_regex, real_sig):
                raise AnchorLost("%s: signature of %s changed\n  expected (regex): %s\n  found:    %s" % (rel, name, sig_regex, real_sig))
        if sig_expect:
            exp = norm_ws(" ".join(sig_expect))
            if exp != real_sig:
                raise AnchorLost("%s: signature of %s changed\n  expected: %s\n  found:    %s" % (rel, name, exp, real_sig))
        qual = (re.sub(r"^impl\s+", "", impl_spec).replace(" for ", "@") + "::" if impl_spec and impl_spec != "-" else "") + name
        body = f["body"]
        body, blog = self._normalise(body, rel, f["line"], qual)
        # rewrites
        for dct in [x for x in directives if x[0] == "rw"]:
            _, kind, rule, cnt, pat, rep, tl = dct
            if kind == "rw":
                found = body.count(pat)
                newbody = body.replace(pat, rep)
            else:
                found = len(re.findall(pat, body))
                newbody = re.sub(pat, rep, body)
            if cnt == "?":
                if found > 1:
                    raise AnchorLost("%s: %s: optional rewrite %s pattern `%s` matched %d times" % (rel, qual, rule, pat, found))
            elif cnt != "*" and found != int(cnt):
                raise AnchorLost("%s: %s: rewrite %s pattern `%s` matched %d times, expected %s (template line %d)" % (rel, qual, rule, pat, found, cnt, tl))
            if cnt == "*" and found == 0:
                pass
            body = newbody
            if found:
                self.log.append({"rule": rule, "file": rel, "fn": qual, "line": f["line"], "what": "`%s` => `%s` (x%d)" % (pat, rep, found)})
                if rule == "R-STMT":
                    self.pins.append({"fn": qual, "file": rel, "statement": pat, "sha256": hashlib.sha256(pat.encode()).hexdigest()[:16], "wrapper": rep})
        # R-CAST (automatic): a plain integer constant of the SAME source file that the body names but the template does
        # not declare is replaced by its value, so that a body that starts to use another constant of its file is still
        # taken (decided) instead of being rejected for an unknown name
        tmpl_text = "\n".join(lines)
        emitted = "\n".join(x[0] for x in self.out)
        for cname in sorted(set(re.findall(r"\b[A-Z][A-Z0-9]*(?:_[A-Z0-9]+)+\b|\b[A-Z]{4,}\b", body))):
            if re.search(r"\b(const|static)\s+%s\b" % cname, tmpl_text) or re.search(r"\b(const|static)\s+%s\b" % cname, emitted) or re.search(r"::\s*%s\b" % cname, body):
                continue
            res = self._auto_const(S, cname, 0)
            if res is None:
                continue
            val, cty, cline = res
            body = re.sub(r"\b%s\b" % cname, "(%d as %s)" % (val, cty), body)
            self.log.append({"rule": "R-CAST", "file": rel, "fn": qual, "line": cline, "what": "constant %s (not declared by the template) replaced by its value %d" % (cname, val)})
        # loops
        loops = [x for x in directives if x[0] == "loop"]
        if loops:
            body = self._splice_loops(body, loops, rel, qual)
        else:
            nloops = len(self._loop_headers(body))
            if nloops:
                pass  # loops without invariants: Verus will demand them (unsupported -> error surfaces)
        for dct in [x for x in directives if x[0] == "proof"]:
            body = self._splice_proof(body, dct, rel, qual)
        self.cur_fn = qual
        fn_start = len(self.out) + 1
        for (hl, hi) in header:
            self.emit(self._kf_line(hl, hdr_lines_all, hi), kind="contract", fn=qual, tmpl=tname, tline=hi + 1)
        self.emit("{ // @body %s:%d-%d" % (rel, f["line"], f["end_line"]), kind="body-open", fn=qual)
        bl = body.split("\n")
        for k, b in enumerate(bl):
            self.emit(b, kind="body", fn=qual, src=rel)
        self.emit("}", kind="body-close", fn=qual)
        fn_end = len(self.out)
        self.cur_fn = None
        self.functions.append({"file": rel, "impl": impl_spec, "name": name, "qual": qual, "line": f["line"], "end_line": f["end_line"],
                               "gen_start": fn_start, "gen_end": fn_end, "body_sha256": hashlib.sha256(f["body"].encode()).hexdigest()[:16],
                               "header_text": "\n".join(h for h, _ in header)})
        return i

    # ------------------------------------------------------------------ generic normalisation
    def _normalise(self, body, rel, line, qual):
        """R-DBG: remove debug_assert*!(..); log::*!(..); statements and
        #[cfg(debug_assertions)] blocks/fields.  Applied to every body."""
        changed = True
        while changed:
            changed = False
            msk = mask(body)
            m = re.search(r"(?m)^[ \t]*#\[cfg\(debug_assertions\)\]\s*\n?[ \t]*(\{)", msk)
            if m:
                o = m.start(1)
                c = match_close(msk, o)
                self.log.append({"rule": "R-DBG", "file": rel, "fn": qual, "line": line, "what": "removed #[cfg(debug_assertions)] block (%d chars)" % (c - m.start())})
                body = body[:m.start()] + body[c + 1:]
                changed = True
                continue
            m = re.search(r"(?m)^[ \t]*#\[cfg\(debug_assertions\)\]\s*\n", msk)
            if m:
                # attribute on a single statement / struct-literal field: remove through the end of that statement
                k = m.end()
                depth = 0
                while k < len(msk):
                    ch = msk[k]
                    if ch in "([{":
                        depth += 1
                    elif ch in ")]}":
                        if depth == 0:
                            break
                        depth -= 1
                    elif ch in ";," and depth == 0:
                        k += 1
                        break
                    k += 1
                self.log.append({"rule": "R-DBG", "file": rel, "fn": qual, "line": line, "what": "removed #[cfg(debug_assertions)] item: %s" % " ".join(body[m.end():k].split())[:80]})
                body = body[:m.start()] + body[k:]
                changed = True
                continue
            m = re.search(r"(?m)^[ \t]*(debug_assert(_eq|_ne)?|log::(trace|debug|info|warn|error))!\s*(\()", msk)
            if m:
                o = m.start(4)
                c = match_close(msk, o)
                e = c + 1
                while e < len(msk) and msk[e] in " \t":
                    e += 1
                if e < len(msk) and msk[e] == ";":
                    e += 1
                self.log.append({"rule": "R-DBG", "file": rel, "fn": qual, "line": line, "what": "removed %s!(..)" % m.group(1)})
                body = body[:m.start()] + body[e:]
                changed = True
        # R-ERRFMT (generic): error *messages* become an opaque String (variants are kept)
        while True:
            msk = mask(body)
            m = re.search(r"\bformat!\s*(\()", msk)
            if not m:
                break
            c = match_close(msk, m.start(1))
            self.log.append({"rule": "R-ERRFMT", "file": rel, "fn": qual, "line": line, "what": "format!(..) => opaque_string(): %s" % " ".join(body[m.start():c + 1].split())[:80]})
            body = body[:m.start()] + "opaque_string()" + body[c + 1:]
        def tostr(m):
            self.log.append({"rule": "R-ERRFMT", "file": rel, "fn": qual, "line": line, "what": "string literal .to_string()/.into() => opaque_string(): %s" % m.group(0)[:60].replace("\n", " ")})
            return "opaque_string()"
        body = re.sub(r'"(?:[^"\\]|\\.)*"\s*\.to_string\(\)', tostr, body)
        body = re.sub(r'"(?:[^"\\]|\\.)*"\s*\.into\(\)', tostr, body)
        # R-CAST (generic): `E >= Ordering::Equal` etc. are written with std's inherent methods (same meaning by definition)
        def ordcmp(m):
            name = {">=": "is_ge", "<=": "is_le", ">": "is_gt", "<": "is_lt"}[m.group(1)]
            self.log.append({"rule": "R-CAST", "file": rel, "fn": qual, "line": line, "what": "`.. %s Ordering::Equal` => `.%s()`" % (m.group(1), name)})
            return ".%s()" % name
        body = re.sub(r"\s*(>=|<=|>|<)\s*Ordering::Equal\b", ordcmp, body)
        # R-REFPAT (generic): `if let Some(&x) = E {`  =>  `if let Some(x__r) = E { let x = *x__r;`
        def refpat(m):
            self.log.append({"rule": "R-REFPAT", "file": rel, "fn": qual, "line": line, "what": "`%s let Some(&%s) = ..` => bind reference, then `let %s = *%s__r;`" % (m.group(1), m.group(2), m.group(2), m.group(2))})
            return "%s let Some(%s__r) = %s{ let %s = *%s__r;" % (m.group(1), m.group(2), m.group(3), m.group(2), m.group(2))
        body = re.sub(r"\b(if|while) let Some\(&(\w+)\) = ([^{;]*)\{", refpat, body)
        # R-REFPAT (generic): `let (a, b) = &PLACE;`  =>  two field borrows (PLACE is a pure place expression)
        def tup(m):
            self.log.append({"rule": "R-REFPAT", "file": rel, "fn": qual, "line": line, "what": "`let (%s, %s) = &%s;` => two field borrows" % (m.group(1), m.group(2), m.group(3))})
            return "let %s = &%s.0; let %s = &%s.1;" % (m.group(1), m.group(3), m.group(2), m.group(3))
        body = re.sub(r"\blet \((\w+), (\w+)\) = &([\w\.\[\]]+);", tup, body)
        return body, None

    def _loop_headers(self, body):
        """Offsets (start of keyword, offset of body '{') for each loop in textual order."""
        msk = mask(body)
        res = []
        for m in re.finditer(r"(?<![\w.])(?:'\w+\s*:\s*)?(for|while|loop)\b", msk):
            kw = m.group(1)
            # make sure it is a statement/expression keyword, not part of an identifier
            k = m.end()
            depth = 0
            while k < len(msk):
                ch = msk[k]
                if ch in "([":
                    depth += 1
                elif ch in ")]":
                    depth -= 1
                elif ch == "{" and depth == 0:
                    # `while let Some(x) = foo {`: struct-literal braces are not allowed in loop heads without parens
                    break
                elif ch == ";" and depth == 0:
                    k = -1
                    break
                k += 1
            if k > 0 and k < len(msk):
                res.append((m.start(), k, kw))
        return res

    def _splice_loops(self, body, loops, rel, qual):
        """A //@loop n block: lines up to an optional `//@inbody` separator go
        between the loop head and its `{` (invariant / decreases); lines after
        `//@inbody` go right after the `{`; lines after `//@atend` go before
        the closing `}` of the loop body."""
        heads = self._loop_headers(body)
        msk = mask(body)
        ins = []
        for (_, nth, blk, tl) in loops:
            if nth < 1 or nth > len(heads):
                raise AnchorLost("%s: %s: loop #%d not found (function has %d loops)" % (rel, qual, nth, len(heads)))
            sect = {"head": [], "inbody": [], "atend": []}
            cur = "head"
            for b in blk:
                t = b.strip()
                if t == "//@inbody":
                    cur = "inbody"
                elif t == "//@atend":
                    cur = "atend"
                else:
                    sect[cur].append(b)
            o = heads[nth - 1][1]
            c = match_close(msk, o)
            if sect["head"]:
                ins.append((o, 0, "\n" + "\n".join(sect["head"]) + "\n"))
            if sect["inbody"]:
                ins.append((o + 1, 1, "\n" + "\n".join(sect["inbody"]) + "\n"))
            if sect["atend"]:
                ins.append((c, 2, "\n" + "\n".join(sect["atend"]) + "\n"))
        for off, _, text in sorted(ins, key=lambda x: (x[0], x[1]), reverse=True):
            body = body[:off] + text + body[off:]
        return body

    def _splice_proof(self, body, dct, rel, qual):
        _, where, anchor, blk, tl, nth, optional = dct
        text = "\n".join(blk)
        if optional and anchor is not None and body.count(anchor) == 0:
            return body        # `//@proof?`: a hint that only exists for one shape of the code; without its anchor it is skipped
        for b in blk:
            pass
        if where == "start":
            return "\n" + text + "\n" + body
        if where == "end":
            b = body.rstrip()
            last_nl = b.rfind("\n")
            tail = b[last_nl + 1:].strip()
            if tail.endswith(";") or tail.endswith("}"):
                return b + "\n" + text + "\n"
            # the body ends with a one-line tail expression (e.g. `Ok(())`): the proof goes before it
            return b[:last_nl + 1] + text + "\n" + b[last_nl + 1:] + "\n"
        cnt = body.count(anchor)
        if nth is None and cnt != 1:
            raise AnchorLost("%s: %s: proof anchor `%s` matched %d times (template line %d)" % (rel, qual, anchor, cnt, tl))
        if nth is not None and cnt < nth:
            raise AnchorLost("%s: %s: proof anchor `%s` matched %d times, occurrence #%d wanted (template line %d)" % (rel, qual, anchor, cnt, nth, tl))
        idx = -1
        for _ in range(nth or 1):
            idx = body.index(anchor, idx + 1)
        if where == "before":
            ls = body.rfind("\n", 0, idx) + 1
            return body[:ls] + text + "\n" + body[ls:]
        # after: end of the statement containing the anchor = next ';' at depth 0 from anchor start, or end of line if anchor ends with '{'
        msk = mask(body)
        k = idx
        depth = 0
        while k < len(msk):
            ch = msk[k]
            if ch in "([{":
                depth += 1
            elif ch in ")]}":
                depth -= 1
                if depth < 0:
                    break
            elif ch == ";" and depth == 0:
                k += 1
                break
            k += 1
        return body[:k] + "\n" + text + "\n" + body[k:]

    # ------------------------------------------------------------------ output
    def text(self):
        return "\n".join(t for t, _ in self.out) + "\n"

    def origins(self):
        return [o for _, o in self.out]


TRUST_PATTERNS = [
    ("external_body", r"#\[verifier::external_body\]"),
    ("external_fn_specification", r"assume_specification"),
    ("external_type_specification", r"#\[verifier::external_type_specification\]"),
    ("assume", r"\bassume\s*\("),
    ("admit", r"\badmit\s*\("),
    ("uninterp", r"\buninterp\s+spec\s+fn"),
    ("axiom", r"\baxiom\b|#\[verifier::external\]"),
    ("external_trait", r"#\[verifier::external_trait_specification\]"),
]


def scan_trusted(text):
    """Mechanical scan for every trust-introducing construct in a generated file."""
    found = []
    lines = text.split("\n")
    for n, ln in enumerate(lines, 1):
        code = ln.split("//")[0]
        for kind, pat in TRUST_PATTERNS:
            if re.search(pat, code):
                # describe with the next non-attribute line (the item it applies to)
                desc = code.strip()
                if kind in ("external_body", "external_type_specification", "external_trait"):
                    k = n
                    while k < len(lines) and (lines[k].strip().startswith("#[") or not lines[k].strip()):
                        k += 1
                    if k < len(lines):
                        desc = lines[k].strip()
                found.append({"kind": kind, "line": n, "item": " ".join(desc.split())[:160]})
    return found
