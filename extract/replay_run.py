"""Concrete replay / bounded-check drivers.

Drivers live in /verif/replay/<m>.rs and are compiled into the real crate's
test binary through the cfg(all(test, surrealkv_verif)) hooks.  A run copies
/repo's working tree to a scratch directory (removed afterwards), builds with
RUSTFLAGS=--cfg surrealkv_verif into /verif/.cache/replay-target and runs the
named tests; every driver prints one `REPLAY-RESULT {json}` line.
"""
import json
import os
import re
import shutil
import subprocess
import tempfile
import time


def run_drivers(repo, verif, names, outdir, timeout=1500):
    base = tempfile.mkdtemp(prefix="skv-replay.", dir="/var/tmp")
    res = {"cmd": "", "results": {}, "error": None, "wall": 0.0}
    try:
        scratch = os.path.join(base, "repo")
        shutil.copytree(repo, scratch, ignore=lambda d, ns: [n for n in ns if n in ("target", ".git")], symlinks=True)
        # the target directory is shared between runs on DIFFERENT source trees and cargo decides freshness by mtime:
        # a copy whose files are older than the last build (e.g. the unchanged tree after a run on a modified copy)
        # would silently reuse the stale test binary.  Bump one source file so that the crate is always rebuilt
        # from the text that is there now (dependencies stay cached).
        try:
            os.utime(os.path.join(scratch, "src", "lib.rs"), None)
        except OSError:
            pass
        tgt = os.path.join(os.environ.get("VERIF_CACHE", os.path.join(verif, ".cache")), "replay-target")
        os.makedirs(tgt, exist_ok=True)
        env = dict(os.environ, CARGO_NET_OFFLINE="true", SURREALKV_VERIF_DIR=verif, CARGO_TARGET_DIR=tgt,
                   RUSTFLAGS=(os.environ.get("RUSTFLAGS", "") + " --cfg surrealkv_verif").strip())
        cmd = ["cargo", "test", "--offline", "--lib", "--", "--nocapture", "--test-threads", "4"] + ["::".join(n.split("::")[:-1] + ["verif_replay", n.split("::")[-1]]) for n in names]
        t0 = time.time()
        # one build-and-run at a time per target directory: concurrent runs on DIFFERENT trees would overwrite
        # each other's test binary between build and execution
        import fcntl
        lock = open(os.path.join(tgt, ".verif-run.lock"), "w")
        fcntl.flock(lock, fcntl.LOCK_EX)
        os.makedirs(outdir, exist_ok=True)
        rawlog = os.path.join(outdir, "replay.raw.log")
        try:
            # output goes to a file so that a timeout still leaves what was printed (which driver, which program)
            with open(rawlog, "w") as lf:
                proc = subprocess.Popen(cmd, cwd=scratch, env=env, stdout=lf, stderr=subprocess.STDOUT, text=True, start_new_session=True)
                try:
                    proc.wait(timeout=timeout)
                except subprocess.TimeoutExpired:
                    res["error"] = "timeout after %ds" % timeout
                    try:
                        os.killpg(proc.pid, 9)
                    except OSError:
                        pass
                    proc.wait()
            out = open(rawlog, errors="replace").read()
        finally:
            fcntl.flock(lock, fcntl.LOCK_UN)
            lock.close()
        res["wall"] = time.time() - t0
        res["cmd"] = "(scratch copy of /repo) RUSTFLAGS='--cfg surrealkv_verif' SURREALKV_VERIF_DIR=%s %s" % (verif, " ".join(cmd))
        os.makedirs(outdir, exist_ok=True)
        open(os.path.join(outdir, "replay.log"), "w").write(out[-400000:])
        for m in re.finditer(r"REPLAY-RESULT (\{.*\})", out):
            try:
                j = json.loads(m.group(1))
                res["results"][j["driver"]] = j
            except Exception as e:
                res["error"] = "unparsable driver output: %s" % e
        if re.search(r"(?m)^error(\[E\d+\])?:", out) and not res["results"]:
            res["error"] = "build failed: " + "; ".join(re.findall(r"(?m)^error.*$", out)[:3])
    finally:
        shutil.rmtree(base, ignore_errors=True)
    return res


# which driver can search counterexamples for which unit
UNIT_DRIVERS = {
    "compaction_retention": ["iter::retention_enum"],
    "compaction_accumulate": ["iter::advance_enum"],
    "pipeline_commit": ["transaction::conflict_enum"],
    "txn_commit": ["transaction::conflict_enum"],
    "write_set": ["transaction::writeset_enum"],
    "ws_merge": ["transaction::cursor_enum_quick"],
    "oracle": ["transaction::conflict_enum"],
    "point_read": ["snapshot::reads_enum_quick", "snapshot::reads_enum_thorough"],
    "visibility_filter": ["snapshot::reads_enum_quick"],
    "scan_filter": ["transaction::cursor_enum_quick"],
    "range_bounds": ["transaction::cursor_enum_quick"],
    "point_in_time": ["snapshot::timetravel_enum_quick"],
    "flush_cleanup": ["wal::crash_enum_quick"],
    "wal_reader": ["wal::log_enum_quick"],
    "wal_writer": ["wal::log_enum_quick"],
    "table_skip": ["sstable::table::roundtrip_enum_quick"],
    "integrity": ["sstable::table::damage_sweep_body"],
    "snapshot_registry": ["snapshot::registry_enum"],
    "comparators": ["sstable::table::roundtrip_enum_quick"],
    "commit_arith": ["transaction::conflict_enum"],
    "manifest_invariant": ["levels::reopen_enum_quick"],
    "batch_seq": ["batch::roundtrip_enum"],
    "vlog_pointer": ["sstable::table::min_vlog_file_id_enum"],
    "filter_single": ["sstable::table::roundtrip_enum_quick"],
    "table_add": ["sstable::table::roundtrip_enum_quick", "sstable::table::min_vlog_file_id_enum"],
    "table_meta": ["sstable::table::roundtrip_enum_quick"],
    "recovery_flush": ["wal::crash_enum_quick"],
    "scan_filter_back": ["transaction::cursor_enum_quick"],
    "bptree_node": ["bptree_enum_quick"],
    "history_window": ["snapshot::timetravel_enum_quick"],
    "history_merge": ["snapshot::timetravel_enum_quick"],
    "pipeline_failure": ["commit::fault_enum"],
    "restore_protocol": ["levels::checkpoint_enum_quick"],
    "checkpoint_protocol": ["levels::checkpoint_enum_quick"],
    "block_cache": ["levels::checkpoint_enum_quick"],
    "dir_lock": ["exclusive_enum_quick"],
    "open_lock": ["exclusive_enum_quick"],
    "wal_sticky": ["wal::log_enum_quick"],
    "compaction_inputs": ["snapshot::reads_enum_quick"],
    "compaction_commit": ["levels::min_oldest_vlog_enum"],
    "flush_protocol": ["wal::crash_enum_quick", "snapshot::timetravel_enum_quick"],
    "queue_dequeue": ["transaction::conflict_enum"],
    "bptree_freelist": ["bptree_enum_quick"],
    "bptree_header": ["bptree_enum_quick"],
    "arena_bound": ["commit::oversize_enum"],
    "startup_protocol": ["wal::crash_enum_quick"],
    "rotate_protocol": ["wal::crash_enum_quick"],
    "oracle_restore": ["levels::checkpoint_enum_quick"],
    "vlog_file": ["sstable::table::min_vlog_file_id_enum"],
    "lock_order": ["transaction::cursor_enum_quick"],
}


def search(repo, verif, prop, violation, outdir):
    """Counterexample search for a failed Verus obligation: run the unit's driver on the real code."""
    unit = violation.get("unit")
    names = UNIT_DRIVERS.get(unit)
    if not names:
        return None
    r = run_drivers(repo, verif, names, outdir)
    for n in names:
        j = r["results"].get(n)
        if j and j.get("failures"):
            return {"driver": n, "bound": "see header of replay/%s.rs" % n.split("::")[0], "failing_input": j["failures"][0], "cases_tried": j.get("cases")}
    return None
