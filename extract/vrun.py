#!/usr/bin/env python3
"""dev helper: generate a unit and run verus on it, print human errors."""
import os, sys, subprocess, json
sys.path.insert(0, os.path.dirname(os.path.abspath(__file__)))
from gen import Gen
from rustsrc import AnchorLost
verif = os.path.dirname(os.path.dirname(os.path.abspath(__file__)))
repo = os.environ.get("VERIF_REPO", "/repo")
unit = sys.argv[1]
exc = sys.argv[2].split(",") if len(sys.argv) > 2 and not sys.argv[2].startswith("-") else []
g = Gen(repo, verif, excuses=exc)
try:
    g.run(os.path.join(verif, "units", unit + ".vspec"))
except AnchorLost as e:
    print("ANCHOR LOST:", e); sys.exit(2)
os.makedirs(os.path.join(verif, "out", "dev"), exist_ok=True)
out = os.path.join(verif, "out", "dev", unit + ".rs")
open(out, "w").write(g.text())
extra = [a for a in sys.argv[2:] if a.startswith("-")]
r = subprocess.run(["verus", out, "--time"] + extra, capture_output=True, text=True)
print(r.stderr[-6000:])
print(r.stdout[-1500:])
