"""Kani harness runner (filled in below)."""
def run(repo, verif, prop, kcfg, tier, outdir):
    return {"cmds": [], "complete": [], "bounded": [], "undecided": [], "violations": [], "trusted": []}
