"""Kani harness runner.

The harness files live in /verif/kani/<m>.rs and are compiled into the real
crate through the cfg(kani) hooks (child modules `verif_kani`).  A run copies
/repo's working tree to a scratch directory (removed afterwards), keeps the
dependency build in /verif/.cache/kani-target, and runs `cargo kani` once with
all requested harnesses.
"""
import json
import os
import re
import shutil
import subprocess
import tempfile
import time


def _copy_repo(repo, dst):
    def ig(d, names):
        return [n for n in names if n in ("target", ".git")]
    shutil.copytree(repo, dst, ignore=ig, symlinks=True)
    # shared target directory + mtime-based freshness: always rebuild the crate from the text that is there now
    try:
        os.utime(os.path.join(dst, "src", "lib.rs"), None)
    except OSError:
        pass


def run(repo, verif, prop, kcfg, tier, outdir):
    res = {"cmds": [], "complete": [], "bounded": [], "undecided": [], "violations": [], "trusted": []}
    hs = [h for h in kcfg.get("harnesses", []) if tier == "thorough" or h.get("tier", "quick") == "quick"]
    if not hs:
        return res
    base = tempfile.mkdtemp(prefix="skv-kani.", dir="/var/tmp")
    try:
        scratch = os.path.join(base, "repo")
        _copy_repo(repo, scratch)
        tgt = os.path.join(os.environ.get("VERIF_CACHE", os.path.join(verif, ".cache")), "kani-target")
        os.makedirs(tgt, exist_ok=True)
        env = dict(os.environ, CARGO_NET_OFFLINE="true", SURREALKV_VERIF_DIR=verif, CARGO_TARGET_DIR=tgt)
        cmd = ["cargo", "kani", "-Z", "stubbing", "--output-format", "terse", "-j", str(min(8, len(hs)))]
        for h in hs:
            cmd += ["--harness", h["name"]]
        t0 = time.time()
        try:
            r = subprocess.run(cmd, cwd=scratch, env=env, capture_output=True, text=True, timeout=int(kcfg.get("timeout_s", 1500)))
            out = r.stdout + "\n" + r.stderr
            rc = r.returncode
        except subprocess.TimeoutExpired as e:
            out = (e.stdout or b"").decode(errors="replace") if isinstance(e.stdout, bytes) else (e.stdout or "")
            rc = -9
            res["undecided"].append("kani: timeout after %ss" % kcfg.get("timeout_s", 1500))
        wall = time.time() - t0
        res["cmds"].append("(scratch copy of /repo) SURREALKV_VERIF_DIR=%s %s" % (verif, " ".join(cmd)))
        open(os.path.join(outdir, "kani.log"), "w").write(out)
        # parse: "Thread N: Checking harness X..." then later "Thread N: " + result block (with -j), or
        # "Checking harness X..." directly followed by its result block
        seen = {}
        cur = {}
        blocks = {}
        active = None
        for ln in out.split("\n"):
            m = re.match(r"^(?:Thread (\d+): )?Checking harness (\S+?)\.\.\.", ln)
            if m:
                t = m.group(1) or "0"
                cur[t] = m.group(2)
                blocks.setdefault(m.group(2), [])
                active = m.group(2) if m.group(1) is None else None
                continue
            m = re.match(r"^Thread (\d+): ?$", ln)
            if m:
                active = cur.get(m.group(1))
                continue
            if ln.startswith("Manual Harness Summary") or ln.startswith("Complete - "):
                active = None
            if active:
                blocks[active].append(ln)
        for name, lines in blocks.items():
            sec = "\n".join(lines)
            ok = "VERIFICATION:- SUCCESSFUL" in sec
            failed = "VERIFICATION:- FAILED" in sec
            m = re.search(r"\*\* (\d+) of (\d+) failed", sec)
            nfail, ntot = (int(m.group(1)), int(m.group(2))) if m else (0, 0)
            tm = re.search(r"Verification Time: ([\d.]+)s", sec)
            cm = re.search(r"\*\* (\d+) of (\d+) cover properties satisfied", sec)
            uncov = (int(cm.group(2)) - int(cm.group(1))) if cm else 0
            failed_checks = re.findall(r"(?m)^Failed Checks: (.*)$", sec)
            unwind = any("unwinding assertion" in fc for fc in failed_checks)
            seen[name] = {"ok": ok, "failed": failed, "nfail": nfail, "ntot": ntot, "time": float(tm.group(1)) if tm else 0.0,
                          "uncovered": uncov, "failed_checks": failed_checks, "unwind": unwind, "text": sec[-3000:]}
        for h in hs:
            short = h["name"]
            key = [k for k in seen if k.endswith(short) or k.split("::")[-1] == short.split("::")[-1]]
            if not key:
                res["undecided"].append("kani: harness %s produced no result (rc=%s; see out/%s/kani.log)" % (short, rc, prop))
                continue
            s = seen[key[0]]
            ent = {"harness": key[0], "kind": h["kind"], "bound": h.get("bound", "none (loop-free, full input domain)" if h["kind"] == "complete" else "?"),
                   "checks": s["ntot"], "failed": s["nfail"], "time_s": s["time"], "what": h.get("what", "")}
            if s["ok"] and s["ntot"] > 0:
                if s["uncovered"]:
                    res["undecided"].append("kani: harness %s has unreachable cover (vacuous assumption)" % short)
                (res["complete"] if h["kind"] == "complete" else res["bounded"]).append(ent)
            elif s["failed"]:
                if s["unwind"] and all("unwinding" in fc for fc in s["failed_checks"]):
                    res["undecided"].append("kani: harness %s: unwinding bound too small" % short)
                    continue
                res["violations"].append({"obligation": "kani::%s::%s" % (short, (s["failed_checks"] or ["assertion"])[0][:80]), "kind": "kani", "function": short, "label": None,
                                          "clause": h.get("what", ""), "message": "Kani: %d of %d checks failed: %s" % (s["nfail"], s["ntot"], "; ".join(s["failed_checks"])[:300]),
                                          "rendered": s["text"], "site_text": "", "unit": "kani"})
                (res["complete"] if h["kind"] == "complete" else res["bounded"]).append(ent)
            else:
                res["undecided"].append("kani: harness %s neither succeeded nor failed (ICE / OOM / compile error; see kani.log)" % short)
        res["trusted"].append("kani/cbmc: bit-precise model of the compiled MIR; std library code is verified as compiled, allocator and panics per Kani's model")
        res["wall"] = wall
    finally:
        shutil.rmtree(base, ignore_errors=True)
    return res
