"""Light-weight Rust source scanner used by the extractor.

No parsing beyond what is needed to (a) skip comments / string / char
literals, (b) match braces / parens, (c) locate `impl` blocks, `fn`, `struct`,
`enum`, `const` items by header.  Works on rustfmt-formatted sources.
"""
import re


class AnchorLost(Exception):
    pass


def mask(src):
    """Return a same-length string where comments, string and char literals are
    replaced by spaces (newlines kept).  Brace matching is done on the mask."""
    out = list(src)
    i, n = 0, len(src)

    def blank(a, b):
        for k in range(a, b):
            if out[k] != "\n":
                out[k] = " "

    while i < n:
        c = src[i]
        if c == "/" and i + 1 < n and src[i + 1] == "/":
            j = src.find("\n", i)
            j = n if j < 0 else j
            blank(i, j)
            i = j
        elif c == "/" and i + 1 < n and src[i + 1] == "*":
            depth, j = 1, i + 2
            while j < n and depth:
                if src.startswith("/*", j):
                    depth += 1
                    j += 2
                elif src.startswith("*/", j):
                    depth -= 1
                    j += 2
                else:
                    j += 1
            blank(i, j)
            i = j
        elif c == '"' or (c in "br" and re.match(r'b?r?#*"', src[i:i + 8]) and (i == 0 or not (src[i - 1].isalnum() or src[i - 1] == "_"))):
            m = re.match(r'(b?)(r?)(#*)"', src[i:])
            raw, hashes = m.group(2), m.group(3)
            j = i + m.end()
            if raw:
                end = '"' + hashes
                k = src.find(end, j)
                k = n if k < 0 else k + len(end)
            else:
                k = j
                while k < n:
                    if src[k] == "\\":
                        k += 2
                    elif src[k] == '"':
                        k += 1
                        break
                    else:
                        k += 1
            blank(i, k)
            i = k
        elif c == "'":
            # char literal or lifetime
            m = re.match(r"'(\\(x[0-9a-fA-F]{2}|u\{[0-9a-fA-F_]+\}|.)|[^\\'])'", src[i:])
            if m:
                blank(i, i + m.end())
                i += m.end()
            else:
                i += 1
        elif c == "b" and src.startswith("b'", i) and (i == 0 or not (src[i - 1].isalnum() or src[i - 1] == "_")):
            m = re.match(r"b'(\\(x[0-9a-fA-F]{2}|.)|[^\\'])'", src[i:])
            if m:
                blank(i, i + m.end())
                i += m.end()
            else:
                i += 1
        else:
            i += 1
    return "".join(out)


PAIRS = {"{": "}", "(": ")", "[": "]"}


def match_close(msk, open_idx):
    """Index of the bracket closing the one at open_idx (on the masked text)."""
    o = msk[open_idx]
    c = PAIRS[o]
    depth = 0
    for k in range(open_idx, len(msk)):
        ch = msk[k]
        if ch == o:
            depth += 1
        elif ch == c:
            depth -= 1
            if depth == 0:
                return k
    raise AnchorLost("unbalanced %r at offset %d" % (o, open_idx))


def line_of(src, idx):
    return src.count("\n", 0, idx) + 1


def norm_ws(s):
    s = re.sub(r"\s+", " ", s).strip()
    s = re.sub(r"\s*,\s*\)", ")", s)       # trailing commas of rustfmt'd parameter lists
    s = re.sub(r"\(\s+", "(", s)
    s = re.sub(r",\s*$", "", s)
    s = re.sub(r"\s*,\s*\{?$", "", s)
    return s


class Source:
    def __init__(self, path, text):
        self.path = path
        self.text = text
        self.msk = mask(text)

    # ---- test-module exclusion -------------------------------------------------
    def _cfg_test_ranges(self):
        r = []
        for m in re.finditer(r"#\[cfg\(test\)\]\s*(pub(\([a-z]+\))?\s+)?mod\s+\w+\s*\{", self.msk):
            o = m.end() - 1
            r.append((m.start(), match_close(self.msk, o)))
        return r

    def _in_test(self, idx):
        return any(a <= idx <= b for a, b in self._cfg_test_ranges())

    # ---- impl blocks ---------------------------------------------------------
    def impl_blocks(self, spec):
        """spec: 'impl X' (inherent) or 'impl T for X'.  Generic parameters and
        lifetimes in the real header are ignored.  Returns list of (open, close)."""
        m = re.match(r"impl\s+(?:(\S+)\s+for\s+)?(\S+)$", spec.strip())
        if not m:
            raise AnchorLost("bad impl spec %r" % spec)
        trait, ty = m.group(1), m.group(2)
        res = []
        for h in re.finditer(r"(?m)^[ \t]*(unsafe\s+)?impl\b([^{;]*)\{", self.msk):
            if self._in_test(h.start()):
                continue
            header = " ".join(self.text[h.start():h.end() - 1].split())
            header = re.sub(r"^(unsafe\s+)?impl\s*(<[^>]*(<[^>]*>[^>]*)*>)?\s*", "", header)
            header = re.sub(r"\bwhere\b.*$", "", header).strip()
            hm = re.match(r"(?:(.+?)\s+for\s+)?(.+)$", header)
            htrait, hty = hm.group(1), hm.group(2)
            strip = lambda t: re.sub(r"<.*>", "", t).strip() if t else t
            if strip(hty) != ty:
                continue
            if (trait is None) != (htrait is None):
                continue
            if trait is not None and strip(htrait).split("::")[-1] != trait.split("::")[-1]:
                continue
            o = h.end() - 1
            res.append((o, match_close(self.msk, o)))
        return res

    # ---- functions -----------------------------------------------------------
    def find_fn(self, impl_spec, name):
        """Returns dict(sig, body, sig_start, body_open, body_close).  impl_spec
        '-' means a free function at module level."""
        if impl_spec.strip() in ("-", ""):
            scopes = [(-1, len(self.msk))]
            want_depth = 0
        else:
            scopes = self.impl_blocks(impl_spec)
            if not scopes:
                raise AnchorLost("%s: no `%s` block" % (self.path, impl_spec))
            want_depth = 1
        found = []
        for (o, c) in scopes:
            for m in re.finditer(r"\bfn\s+%s\b" % re.escape(name), self.msk[o + 1:c]):
                idx = o + 1 + m.start()
                if self._in_test(idx):
                    continue
                # depth relative to scope
                seg = self.msk[o + 1:idx]
                depth = seg.count("{") - seg.count("}")
                if depth != 0:
                    continue
                if want_depth == 0:
                    pass
                found.append(idx)
        if len(found) > 1:
            # items configured out on this target (`#[cfg(target_arch = "wasm32")]` directly above the fn) are not the code that runs
            def cfg_out(idx):
                ls = self.text.rfind("\n", 0, idx) + 1
                k = ls
                while k > 0:
                    pl = self.text.rfind("\n", 0, k - 1) + 1
                    line = self.text[pl:k - 1].strip()
                    if line.startswith("#[") or line.startswith("///") or line.startswith("//"):
                        if re.match(r'#\[cfg\(target_arch\s*=\s*"wasm32"\)\]', line):
                            return True
                        k = pl
                        continue
                    break
                return False
            found = [i for i in found if not cfg_out(i)]
        if not found:
            raise AnchorLost("%s: fn %s not found in `%s`" % (self.path, name, impl_spec))
        if len(found) > 1:
            raise AnchorLost("%s: fn %s ambiguous in `%s` (%d matches)" % (self.path, name, impl_spec, len(found)))
        idx = found[0]
        # signature start: back over visibility / qualifiers on the same item
        ls = self.msk.rfind("\n", 0, idx) + 1
        sig_start = ls + (len(self.msk[ls:idx]) - len(self.msk[ls:idx].lstrip()))
        # body open: first '{' at paren/bracket depth 0 after idx (skip where-clauses, generics)
        k = idx
        depth = 0
        angle = 0
        while k < len(self.msk):
            ch = self.msk[k]
            if ch in "([":
                depth += 1
            elif ch in ")]":
                depth -= 1
            elif ch == "{" and depth == 0:
                break
            elif ch == ";" and depth == 0:
                raise AnchorLost("%s: fn %s has no body" % (self.path, name))
            k += 1
        body_open = k
        body_close = match_close(self.msk, body_open)
        return {
            "sig": self.text[sig_start:body_open],
            "body": self.text[body_open + 1:body_close],
            "sig_start": sig_start,
            "body_open": body_open,
            "body_close": body_close,
            "line": line_of(self.text, sig_start),
            "end_line": line_of(self.text, body_close),
        }

    # ---- struct / enum / const -----------------------------------------------------
    def find_item(self, kw, name):
        for m in re.finditer(r"(?m)^[ \t]*(pub(\([a-z]+\))?\s+)?%s\s+%s\b" % (kw, re.escape(name)), self.msk):
            if self._in_test(m.start()):
                continue
            if kw == "const" or kw == "type":
                e = self.msk.find(";", m.end())
                return {"text": self.text[m.start():e + 1], "line": line_of(self.text, m.start())}
            o = self.msk.find("{", m.end())
            semi = self.msk.find(";", m.end())
            if o < 0 or (0 <= semi < o):
                return {"text": self.text[m.start():semi + 1], "line": line_of(self.text, m.start()), "body": None}
            c = match_close(self.msk, o)
            return {"text": self.text[m.start():c + 1], "header": self.text[m.start():o], "body": self.text[o + 1:c],
                    "body_msk": self.msk[o + 1:c], "line": line_of(self.text, m.start())}
        raise AnchorLost("%s: %s %s not found" % (self.path, kw, name))

    def struct_fields(self, name):
        """Returns (ordered list of (field, type_text), line)."""
        it = self.find_item("struct", name)
        if it.get("body") is None:
            raise AnchorLost("%s: struct %s has no named fields" % (self.path, name))
        body, bm = it["body"], it["body_msk"]
        fields = []
        # split at top-level commas
        depth = 0
        start = 0
        parts = []
        for k, ch in enumerate(bm):
            if ch in "([{<":
                depth += 1
            elif ch in ")]}>":
                # '->' never appears in field types except fn pointers; tolerate
                if ch == ">" and k > 0 and bm[k - 1] == "-":
                    continue
                depth -= 1
            elif ch == "," and depth == 0:
                parts.append((start, k))
                start = k + 1
        parts.append((start, len(bm)))
        for (a, b) in parts:
            seg_m = bm[a:b]
            seg = body[a:b]
            # drop attributes
            seg_clean = re.sub(r"#\[[^\]]*\]", " ", "".join(ch if mch != " " or ch.isspace() else " " for ch, mch in zip(seg, seg_m)))
            mm = re.search(r"(?:pub(?:\([a-z]+\))?\s+)?(\w+)\s*:\s*(.+)$", " ".join(seg_clean.split()))
            if mm:
                attrs = re.findall(r"#\[[^\]]*\]", seg_m)
                fields.append((mm.group(1), mm.group(2).strip(), attrs))
        return fields, it["line"]
