#!/usr/bin/env python3
"""Runs every seeded change (seeded/<id>/patch.diff) and every fix-revert patch (selftest/patches/revert_*.diff)
against the check of the property it breaks (plus related checks) and writes seeded/MATRIX.tsv.
Each job runs on its own patched COPY of /repo (never touches /repo) with its own build cache, several at a time.

    seedmatrix.py [--workers N] [--only <seed-id-substring>]
"""
import json, os, shutil, subprocess, sys, glob, threading, queue, time, re
V = os.path.dirname(os.path.abspath(__file__))
REPO = os.environ.get("VERIF_REPO", "/repo")
W = int(sys.argv[sys.argv.index("--workers") + 1]) if "--workers" in sys.argv else 4
ONLY = sys.argv[sys.argv.index("--only") + 1] if "--only" in sys.argv else None
BASE = "/var/tmp/seedmatrix"
EXTRA = {"C16-B": ["C12"], "C10-A": ["C01"], "C06-A": ["C01"], "C13-B": ["C09"], "C02-A": ["C03"], "C02-B": ["C03"], "C03-A": ["C02"], "C03-B": ["C02"],
         "C07-A": ["C02"], "C01-B": ["C06"], "C06-B": ["C01"], "C07-R2": ["C02"], "C06-R2": ["C01"], "C12-R2": ["C16"], "C16-R2": ["C12"], "C02-R2": ["C03"],
         "C03-R2": ["C02"], "C07-R6": ["C11"], "C02-R3": ["C03", "C12"], "C06-R3": ["C09"], "C07-R3": ["C03"], "C06-R8": ["C11"], "C07-R8": ["C02"], "C09-R8": ["C08"], "C04-R10": ["C14"], "C11-R10": ["C14"], "C05-R11": ["C01"], "C06-R11": ["C01"]}
REVERT = {"F2": ["C01"], "F3": ["C01"], "F4": ["C07"], "F10": ["C07"], "F5": ["C09"], "F16": ["C09"], "F17": ["C09"], "F27": ["C09"], "F29": ["C09"],
          "F7": ["C10"], "F9": ["C10"], "F18": ["C10"], "F19": ["C10"], "F20": ["C18"], "F31": ["C10"], "F21": ["C10"], "F28": ["C10"], "F11": ["C12"], "F22": ["C12"], "F12": ["C16"], "F23": ["C14"], "F24": ["C14"],
          "F26": ["C15"], "F30": ["C15", "C07"], "F13": ["C02"], "F14": ["C02"], "F15": ["C02"]}
claimed = set(json.load(open(os.path.join(V, "props.json"))).keys())
jobs = []
rows = {}
for d in sorted(glob.glob(os.path.join(V, "seeded", "C*", ""))):
    sid = os.path.basename(os.path.dirname(d))
    for p in [sid.split("-")[0]] + EXTRA.get(sid, []):
        if ONLY and ONLY not in sid:
            continue
        if p in claimed:
            jobs.append((sid, os.path.join(d, "patch.diff"), p))
        else:
            rows[(sid, p)] = ("not-claimed", "")
for f in sorted(glob.glob(os.path.join(V, "selftest", "patches", "revert_*.diff"))):
    n = os.path.basename(f)[:-5]
    for p in REVERT.get(n.split("_")[1], []):
        if ONLY and ONLY not in n:
            continue
        jobs.append((n, f, p))
if ONLY and os.path.exists(os.path.join(V, "seeded", "MATRIX.tsv")):
    # partial run: keep the rows of the other seeds
    for l in open(os.path.join(V, "seeded", "MATRIX.tsv")).read().split("\n")[1:]:
        c = l.split("\t")
        if len(c) >= 4 and ONLY not in c[0]:
            rows[(c[0], c[1])] = (c[2], c[3])
q = queue.Queue()
for i, j in enumerate(jobs):
    q.put((i, j))
lock = threading.Lock()


def write():
    with open(os.path.join(V, "seeded", "MATRIX.tsv"), "w") as f:
        f.write("seed\tproperty_check\trc\tfirst_line\n")
        for (name, prop) in sorted(rows, key=lambda k: (k[0].startswith("revert"), k)):
            f.write("%s\t%s\t%s\t%s\n" % (name, prop, rows[(name, prop)][0], rows[(name, prop)][1]))
        if all((j[0], j[2]) in rows for j in jobs):
            f.write("DONE\n")


def worker(w):
    wd = os.path.join(BASE, "w%d" % w)
    while True:
        try:
            i, (name, patch, prop) = q.get_nowait()
        except queue.Empty:
            return
        shutil.rmtree(os.path.join(wd, "repo"), ignore_errors=True)
        shutil.rmtree(os.path.join(wd, "out"), ignore_errors=True)
        os.makedirs(wd, exist_ok=True)
        shutil.copytree(REPO, os.path.join(wd, "repo"), ignore=lambda d, ns: [n for n in ns if n in ("target", ".git")], symlinks=True)
        r = subprocess.run(["patch", "-p1", "-s", "-i", patch], cwd=os.path.join(wd, "repo"), capture_output=True, text=True)
        if r.returncode != 0:
            with lock:
                rows[(name, prop)] = ("patch-does-not-apply", r.stdout[:120].replace("\n", " "))
                write()
            continue
        env = dict(os.environ, VERIF_REPO=os.path.join(wd, "repo"), VERIF_OUT=os.path.join(wd, "out"), VERIF_CACHE=os.path.join(BASE, "cache%d" % w), VERIF_THREADS="4")
        t0 = time.time()
        r = subprocess.run([sys.executable, os.path.join(V, "check.py"), prop], capture_output=True, text=True, env=env)
        lines = [l for l in (r.stdout + r.stderr).split("\n") if re.match(r"^(VIOLATION|UNDECIDED|OK|FAILED OBLIGATION)", l)]
        vio = [l for l in lines if l.startswith("VIOLATION")]
        if vio:
            fo = [l for l in lines if l.startswith("FAILED OBLIGATION")]
            line = vio[0][:200] + " :: " + (fo[0][:160] if fo else "")
        else:
            other = [l for l in lines if l.startswith(("UNDECIDED", "OK"))]
            line = other[0][:220] if other else "(no result line, rc=%d)" % r.returncode
        line = line.replace(wd, "<scratch>")
        with lock:
            rows[(name, prop)] = (line.split(" ")[0], line)
            print("[%d/%d] %s %s -> %s (%.0fs)" % (i + 1, len(jobs), name, prop, line.split(" ")[0], time.time() - t0), flush=True)
            write()


ts = [threading.Thread(target=worker, args=(w,)) for w in range(W)]
for t in ts:
    t.start()
for t in ts:
    t.join()
with lock:
    write()
shutil.rmtree(BASE, ignore_errors=True)
