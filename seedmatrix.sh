#!/bin/bash
# runs every seeded change (and every fix-revert patch) against the check of the property it breaks
# (plus related checks) and writes seeded/MATRIX.tsv.  Applies to /repo and undoes straight afterwards.
OUT=/verif/seeded/MATRIX.tsv
echo -e "seed\tproperty_check\trc\tfirst_line" > $OUT
run() { # patch prop
  local patch=$1 prop=$2 name=$3
  cd /repo && git apply "$patch" || { echo -e "$name\t$prop\tpatch-does-not-apply\t" >> $OUT; return; }
  local line rc
  local all
  all=$(cd /verif && VERIF_OUT=/var/tmp/seedmatrix-out python3 check.py $prop 2>&1 | grep -E "^(VIOLATION|UNDECIDED|OK|FAILED OBLIGATION)")
  # a VIOLATION line wins over UNDECIDED lines printed before it; the first FAILED OBLIGATION names the deciding obligation
  line=$(echo "$all" | grep -E "^VIOLATION" | head -1 | cut -c1-200)
  if [ -n "$line" ]; then line="$line :: $(echo "$all" | grep -E "^FAILED OBLIGATION" | head -1 | cut -c1-160)"; else line=$(echo "$all" | grep -E "^(UNDECIDED|OK)" | head -1 | cut -c1-220); fi
  rc=$(echo "$line" | awk '{print $1}')
  cd /repo && git checkout -- .
  echo -e "$name\t$prop\t$rc\t$line" >> $OUT
}
declare -A EXTRA=( [C16-B]="C12" [C10-A]="C01" [C06-A]="C01" [C13-B]="C09" [C02-A]="C03" [C02-B]="C03" [C03-A]="C02" [C03-B]="C02" [C07-A]="C02" [C01-B]="C06" [C06-B]="C01" [C07-R2]="C02" [C06-R2]="C01" [C12-R2]="C16" [C16-R2]="C12" [C02-R2]="C03" [C03-R2]="C02" [C02-R3]="C03 C12" [C06-R3]="C09" [C07-R3]="C03" )
claimed=$(python3 -c "import json;print(' '.join(json.load(open('/verif/props.json')).keys()))")
for d in /verif/seeded/C*/; do
  id=$(basename $d); prop=${id%%-*}
  for p in $prop ${EXTRA[$id]}; do
    if echo " $claimed " | grep -q " $p "; then run $d/patch.diff $p $id; else echo -e "$id\t$p\tnot-claimed\t" >> $OUT; fi
  done
done
for f in /verif/selftest/patches/revert_*.diff; do
  n=$(basename $f .diff)
  case $n in revert_F2|revert_F3) p=C01;; revert_F4|revert_F10) p=C07;; revert_F5|revert_F16|revert_F17|revert_F27|revert_F29) p=C09;; revert_F7|revert_F9|revert_F18|revert_F19|revert_F20) p=C10;; revert_F11|revert_F22) p="C12";; revert_F12) p=C16;; revert_F23|revert_F24) p=C14;; revert_F26) p=C15;; revert_F13|revert_F14|revert_F15) p=C02;; *) p="";; esac
  for q in $p; do run $f $q $n; done
done
rm -rf /var/tmp/seedmatrix-out
echo DONE >> $OUT
