#!/usr/bin/env python3
"""Writes MANIFEST.json from props.json (claimed checks) + not_applicable.json."""
import json, os
V = os.path.dirname(os.path.abspath(__file__))
props = json.load(open(os.path.join(V, "props.json")))
na = json.load(open(os.path.join(V, "not_applicable.json")))
allp = [json.loads(l)["id"] for l in open(os.path.join(V, "properties.jsonl"))]
checks = []
for pid in allp:
    if pid not in props:
        continue
    c = props[pid]
    checks.append({
        "property_id": pid,
        "quick_cmd": "python3 check.py %s --tier quick" % pid,
        "thorough_cmd": "python3 check.py %s --tier thorough" % pid,
        "evidence_file": "/verif/evidence/%s.json" % pid,
        "replay_cmd_template": "python3 check.py %s --replay {path}" % pid,
        "engine": "contracts",
        "level_claimed": {"category": c.get("level", "proof"), "text": c["level_text"], "design_ref": c.get("design_ref", "DESIGN.md section 5")},
        "level_note": c["level_note"],
        "technique": c["technique"],
    })
nas = [{"property_id": p, "reason": na[p]} for p in allp if p not in props]
missing = [p for p in allp if p not in props and p not in na]
assert not missing, missing
m = {
    "version": 1,
    "setup_cmd": "python3 setup_check.py",
    "hooks": {
        "guard": "cfg(kani) (set by cargo-kani) and cfg(surrealkv_verif) (set via RUSTFLAGS=--cfg surrealkv_verif); both need env SURREALKV_VERIF_DIR=/verif at build time",
        "enable": "Verus units read /repo/src directly (no hook). Kani: scratch copy of /repo, `SURREALKV_VERIF_DIR=/verif cargo kani --harness <h>`; replay drivers: scratch copy, `RUSTFLAGS='--cfg surrealkv_verif' SURREALKV_VERIF_DIR=/verif cargo test --offline --lib verif_replay`",
        "baseline_off_cmd": "cd /repo && cargo nextest run --workspace --no-fail-fast --test-threads 8 --offline",
        "source_commits": json.load(open(os.path.join(V, "hook_commits.json"))),
        "add_only": True,
    },
    "engines": [{"name": "contracts", "path": "/verif/check.py", "serves_properties": [c["property_id"] for c in checks],
                 "kind_free_text": "contract templates (units/*.vspec) spliced onto function bodies re-extracted from /repo on every run, discharged by Verus 0.2026.09.13 (Z3); Kani 0.68/CBMC for loop-free complete harnesses and labelled bounded stand-ins"}],
    "checks": checks,
    "not_applicable": nas,
    "notes": "See DESIGN.md. exit 0 = all obligations discharged (KNOWN-FINDING lines for listed findings), exit 1 = VIOLATION line, exit 2 = UNDECIDED (anchor lost / unsupported construct / solver limit / vacuity guard) - never an alarm.",
}
json.dump(m, open(os.path.join(V, "MANIFEST.json"), "w"), indent=1)
print("checks:", [c["property_id"] for c in checks], "n/a:", [x["property_id"] for x in nas])
