#!/usr/bin/env python3
"""Self-test of the checks (DESIGN 3.8): applies deliberate breaking and harmless
edits from selftest/<unit>.json to a scratch copy of /repo/src and runs the
registered check against it.  Not a registered check.

    selftest.py <unit> [--only name]

Each edit: {"name", "prop", "file", "old", "new", "expect": "violation"|"ok", "obligation": substring (optional)}
"""
import json, os, shutil, subprocess, sys, tempfile, time
V = os.path.dirname(os.path.abspath(__file__))
REPO = os.environ.get("VERIF_SELFTEST_REPO", "/repo")
unit = sys.argv[1]
only = sys.argv[3] if len(sys.argv) > 3 and sys.argv[2] == "--only" else None
spec = json.load(open(os.path.join(V, "selftest", unit + ".json")))
base = tempfile.mkdtemp(prefix="skv-selftest.", dir="/var/tmp")
results = []
try:
    scratch = os.path.join(base, "repo")
    os.makedirs(scratch)
    shutil.copytree(os.path.join(REPO, "src"), os.path.join(scratch, "src"))
    for e in spec["edits"]:
        if only and e["name"] != only:
            continue
        path = os.path.join(scratch, e["file"])
        orig = open(path).read()
        cnt = orig.count(e["old"])
        if cnt != 1:
            results.append((e["name"], "BAD-EDIT (pattern matched %d times)" % cnt, False))
            continue
        open(path, "w").write(orig.replace(e["old"], e["new"]))
        env = dict(os.environ, VERIF_REPO=scratch, VERIF_OUT=os.path.join(base, "o"))
        t0 = time.time()
        r = subprocess.run([sys.executable, os.path.join(V, "check.py"), e["prop"], "--no-kani"] + (["--units", unit] if e.get("unit_only", True) else []), capture_output=True, text=True, env=env)
        open(path, "w").write(orig)
        out = r.stdout + r.stderr
        if e["expect"] == "violation":
            ok = r.returncode == 1 and "VIOLATION property=%s" % e["prop"] in out and (not e.get("obligation") or e["obligation"] in out)
        elif e["expect"] == "undecided-or-violation":   # never a silent pass
            ok = r.returncode in (1, 2)
        else:
            ok = r.returncode == 0
        failed_obs = [l for l in out.split("\n") if l.startswith("FAILED OBLIGATION") or l.startswith("UNDECIDED")]
        results.append((e["name"], "rc=%d expect=%s %s (%.1fs) %s" % (r.returncode, e["expect"], "PASS" if ok else "MISS", time.time() - t0, "; ".join(x[:140] for x in failed_obs[:3])), ok))
finally:
    shutil.rmtree(base, ignore_errors=True)
bad = 0
for n, msg, ok in results:
    print("%-40s %s" % (n, msg))
    bad += 0 if ok else 1
print("selftest %s: %d/%d as expected" % (unit, len(results) - bad, len(results)))
sys.exit(1 if bad else 0)
