#!/usr/bin/env python3
"""Entry point of the contract-based checks.

    check.py <Cxx> [--tier quick|thorough] [--replay FILE] [--keep]

exit 0  every obligation generated from /repo's current working tree was
        discharged (or only listed known findings fail)
exit 1  a named obligation failed: prints  VIOLATION property=<id> replay=<path>
exit 2  undecided (anchor lost, unsupported construct, solver resource limit,
        tool failure, vacuous contract): prints  UNDECIDED ...   -- never an alarm
"""
import argparse
import hashlib
import json
import os
import re
import shutil
import subprocess
import sys
import time

VERIF = os.path.dirname(os.path.abspath(__file__))
sys.path.insert(0, os.path.join(VERIF, "extract"))
from gen import Gen, scan_trusted, TemplateError  # noqa: E402
from rustsrc import AnchorLost, mask, match_close  # noqa: E402
import kani_run  # noqa: E402
import replay_run  # noqa: E402

REPO = os.environ.get("VERIF_REPO", "/repo")
VERUS = os.environ.get("VERIF_VERUS", "verus")
NTHREADS = os.environ.get("VERIF_THREADS", "8")

VERIFICATION_FAILURES = [
    (r"postcondition not satisfied", "ensures"),
    (r"precondition not satisfied", "requires"),
    (r"assertion failed", "assert"),
    (r"invariant not satisfied", "invariant"),
    (r"loop invariant", "invariant"),
    (r"possible arithmetic underflow/overflow", "overflow"),
    (r"possible division by zero", "div0"),
    (r"decreases not satisfied", "decreases"),
    (r"could not prove termination", "decreases"),
    (r"index out of bounds|possible.*out of bounds", "bounds"),
    (r"possible bit shift underflow/overflow", "overflow"),
    (r"\bunreachable\b|\bunwrap\b|\bexpect\(", "panic"),   # NOT "expected ..." (a parse error is no obligation)
    (r"failed to satisfy|cannot show|could not show", "other"),
    (r"recommendation not met", "recommends"),
]
RESOURCE_MSGS = [r"[Rr]esource limit", r"rlimit", r"timed? ?out", r"Z3 process", r"solver"]


class Undecided(Exception):
    pass


def load_json(p, default=None):
    try:
        return json.load(open(p))
    except FileNotFoundError:
        return default


# ----------------------------------------------------------------------------- verus
def run_verus(path, extra=None, rlimit=None, seed=None, multiple_errors=6):
    cmd = [VERUS, path, "--output-json", "--time", "--error-format=json", "--num-threads", NTHREADS, "--multiple-errors", str(multiple_errors)]
    if rlimit:
        cmd += ["--rlimit", str(rlimit)]
    if seed is not None:
        cmd += ["--smt-option", "smt.random_seed=%d" % seed, "--smt-option", "sat.random_seed=%d" % seed]
    cmd += extra or []
    t0 = time.time()
    r = subprocess.run(cmd, capture_output=True, text=True, cwd=os.path.dirname(path))
    wall = time.time() - t0
    try:
        js = json.loads(r.stdout[r.stdout.index("{"):]) if "{" in r.stdout else {}
    except Exception:
        js = {}
    diags = []
    raw = []
    for ln in r.stderr.split("\n"):
        ln = ln.strip()
        if ln.startswith("{"):
            try:
                diags.append(json.loads(ln))
                continue
            except Exception:
                pass
        if ln:
            raw.append(ln)
    return {"cmd": " ".join(cmd), "rc": r.returncode, "json": js, "diags": diags, "raw": raw, "wall": wall}


def fn_breakdown(js):
    out = {}
    try:
        for m in js["times-ms"]["smt"]["smt-run-module-times"]:
            for f in m.get("function-breakdown", []):
                out[f["function"]] = f
    except Exception:
        pass
    return out


def classify(res, origins, fn_ranges):
    """Split diagnostics into verification failures (named obligations),
    resource problems and hard errors."""
    fails, resource, hard = [], [], []
    for d in res["diags"]:
        if d.get("level") != "error":
            continue
        msg = d.get("message", "")
        if msg.startswith("aborting due to"):
            continue
        prim = [s for s in d.get("spans", []) if s.get("is_primary")]
        allspans = d.get("spans", [])
        kind = None
        if not d.get("code"):
            for pat, k in VERIFICATION_FAILURES:
                if re.search(pat, msg):
                    kind = k
                    break
        if any(re.search(p, msg) for p in RESOURCE_MSGS) and kind is None:
            resource.append(msg)
            continue
        if kind is None:
            hard.append({"message": msg, "code": (d.get("code") or {}).get("code") if isinstance(d.get("code"), dict) else d.get("code"),
                         "line": prim[0]["line_start"] if prim else None, "rendered": d.get("rendered", "")[:1500]})
            continue
        # which span names the clause?  ensures: primary; requires: the labelled secondary span
        clause_span = prim[0] if prim else (allspans[0] if allspans else None)
        site_span = clause_span
        for s in allspans:
            lab = s.get("label") or ""
            if "failed precondition" in lab or "failed this" in lab:
                clause_span = s
            if "at this call" in lab or "at the end of the function body" in lab or "at this exit" in lab:
                site_span = s
        if kind == "requires" and prim:
            site_span = prim[0]
        fails.append(name_obligation(kind, clause_span, site_span, msg, origins, fn_ranges, d))
    for ln in res["raw"]:
        if re.search(r"panicked|internal error|ICE", ln):
            hard.append({"message": ln, "code": None, "line": None, "rendered": ln})
    return fails, resource, hard


def enclosing_fn(line, fn_ranges):
    for f in fn_ranges:
        if f["gen_start"] <= line <= f["gen_end"]:
            return f
    return None


def name_obligation(kind, clause_span, site_span, msg, origins, fn_ranges, diag):
    cl = clause_span["line_start"] if clause_span else 0
    sl = site_span["line_start"] if site_span else cl
    text = ""
    label = None
    if clause_span and clause_span.get("text"):
        text = " ".join(t["text"].strip() for t in clause_span["text"])[:400]
        m = re.search(r"/\*#(\w+)\*/", " ".join(t["text"] for t in clause_span["text"]))
        if m:
            label = m.group(1)
    org = origins[cl - 1] if 0 < cl <= len(origins) else {}
    site_org = origins[sl - 1] if 0 < sl <= len(origins) else {}
    fn = site_org.get("fn") or org.get("fn")
    f = enclosing_fn(sl, fn_ranges)
    if f:
        fn = f["qual"]
    if kind in ("ensures", "invariant", "decreases") and org.get("fn"):
        fn = org["fn"]          # the clause's own function (spans inside macro expansions can point elsewhere)
    if not fn:
        fn = org.get("lemma") or "<toplevel>"
    callee = None
    if kind == "requires":
        callee = org.get("fn") or org.get("lemma")
    where = label or ("L%s" % (org.get("tline") or cl))
    name = "%s::%s#%s" % (fn, kind, where)
    if kind == "requires" and callee and callee != fn:
        name = "%s::call(%s)::requires#%s" % (fn, callee, where)
    return {"obligation": name, "kind": kind, "function": fn, "label": label, "clause": text, "gen_line": cl, "site_line": sl,
            "site_text": (" ".join(t["text"].strip() for t in site_span["text"])[:200] if site_span and site_span.get("text") else ""),
            "message": msg, "rendered": diag.get("rendered", "")[:3000]}


# ----------------------------------------------------------------------------- vacuity twins
def make_twins(text):
    """Insert `assert(false)` at the start of every exec/proof fn body in the
    generated file.  Convention: a body opens on a line that is exactly `{`
    (template lemmas) or starts with `{ // @body` (extracted functions)."""
    lines = text.split("\n")
    out = []
    twinned = []
    skipped = []
    i = 0
    pending = None
    for i, ln in enumerate(lines):
        s = ln.strip()
        m = re.match(r"(pub(\([a-z]+\))?\s+)?(open\s+|closed\s+|broadcast\s+)*(proof\s+|spec\s+|exec\s+)?fn\s+(\w+)", s)
        if m and not s.startswith("//"):
            mode = (m.group(4) or "exec").strip()
            ext = any("external_body" in lines[k] or "external_fn_specification" in lines[k] for k in range(max(0, i - 3), i))
            if "uninterp" in s or mode == "spec" or ext:
                pending = None
            else:
                pending = (m.group(5), mode, i)
                if s.endswith("{") and not s.endswith("({"):
                    # one-line header: cannot tell body from clause braces reliably
                    skipped.append(m.group(5))
                    pending = None
        out.append(ln)
        if pending and (s == "{" or s.startswith("{ // @body")):
            name, mode, _ = pending
            out.append("    proof { assert(false); } // @twin %s" % name if mode == "exec" else "    assert(false); // @twin %s" % name)
            twinned.append(name)
            pending = None
        elif pending and s.startswith("}") and i > pending[2]:
            pending = None
    return "\n".join(out), twinned, skipped


# ----------------------------------------------------------------------------- one unit
def run_unit(unit, outdir, tier, excuses=None, seeds=(None,)):
    tmpl = os.path.join(VERIF, "units", unit + ".vspec")
    g = Gen(REPO, VERIF, excuses=excuses)
    g.run(tmpl)
    text = g.text()
    os.makedirs(outdir, exist_ok=True)
    suffix = "" if not excuses else "_excused"
    path = os.path.join(outdir, unit + suffix + ".rs")
    header = ["// GENERATED by /verif/check.py from units/%s.vspec and the working tree of %s -- do not edit" % (unit, REPO)]
    for f in g.functions:
        header.append("//   body %s <- %s:%d-%d sha256:%s" % (f["qual"], f["file"], f["line"], f["end_line"], f["body_sha256"]))
    hdr = "\n".join(header) + "\n"
    nhdr = hdr.count("\n")
    open(path, "w").write(hdr + text)
    origins = [{} for _ in range(nhdr)] + g.origins()
    fn_ranges = [dict(f, gen_start=f["gen_start"] + nhdr, gen_end=f["gen_end"] + nhdr) for f in g.functions]
    # lemma names for template lines
    cur = None
    for k, (ln, o) in enumerate(g.out):
        m = re.match(r"\s*(pub\s+)?(broadcast\s+)?proof\s+fn\s+(\w+)", ln)
        if m:
            cur = m.group(3)
        if o.get("kind") == "template" and cur and not o.get("fn"):
            o["lemma"] = cur
        if ln.startswith("}"):
            cur = None
    results = []
    for sd in seeds:
        res = run_verus(path, seed=sd)
        fails, resource, hard = classify(res, origins, fn_ranges)
        if (resource or (fails and any("rlimit" in f["message"] for f in fails))) and not hard:
            res2 = run_verus(path, rlimit=40, seed=7)
            fails2, resource2, hard2 = classify(res2, origins, fn_ranges)
            if not resource2:
                res, fails, resource, hard = res2, fails2, resource2, hard2
        results.append((sd, res, fails, resource, hard))
    sd, res, fails, resource, hard = results[0]
    unstable = []
    if len(results) > 1:
        base = set(f["obligation"] for f in fails)
        for (s2, r2, f2, rs2, h2) in results[1:]:
            other = set(f["obligation"] for f in f2)
            if other != base:
                unstable.append({"seed": s2, "only_here": sorted(other - base), "missing_here": sorted(base - other)})
    bd = fn_breakdown(res["json"])
    vr = (res["json"] or {}).get("verification-results", {})
    return {"unit": unit, "path": path, "gen": g, "res": res, "fails": fails, "resource": resource, "hard": hard,
            "breakdown": bd, "vr": vr, "text": hdr + text, "unstable": unstable, "origins": origins, "fn_ranges": fn_ranges}


def run_twins(u, outdir):
    ttext, twinned, skipped = make_twins(u["text"])
    path = os.path.join(outdir, u["unit"] + "_twins.rs")
    open(path, "w").write(ttext)
    res = run_verus(path, multiple_errors=1)
    bd = fn_breakdown(res["json"])
    # a twin is fine when the function now FAILS
    vacuous = []
    checked = 0
    for name in twinned:
        ent = [v for k, v in bd.items() if k.split("::")[-1] == name]
        if not ent:
            continue
        checked += 1
        if all(e.get("success") for e in ent):
            vacuous.append(name)
    hard = [d for d in res["diags"] if d.get("level") == "error" and d.get("code")]
    return {"path": path, "twinned": len(twinned), "checked": checked, "vacuous": vacuous, "skipped": skipped, "wall": res["wall"], "hard": len(hard)}


# ----------------------------------------------------------------------------- main
def main():
    ap = argparse.ArgumentParser()
    ap.add_argument("prop")
    ap.add_argument("--tier", default=os.environ.get("VERIF_TIER", "quick"), choices=["quick", "thorough"])
    ap.add_argument("--replay")
    ap.add_argument("--units", help="(dev) comma list overriding the property's units")
    ap.add_argument("--no-kani", action="store_true")
    args = ap.parse_args()
    props = load_json(os.path.join(VERIF, "props.json"))
    if args.prop not in props:
        print("unknown or unclaimed property %s" % args.prop)
        sys.exit(2)
    cfg = props[args.prop]
    seed = int(os.environ.get("VERIF_SEED", "0") or 0)
    t0 = time.time()
    OUTBASE = os.environ.get("VERIF_OUT", VERIF)
    outdir = os.path.join(OUTBASE, "out", args.prop)
    os.makedirs(outdir, exist_ok=True)
    if args.replay:
        rp = load_json(args.replay)
        print(json.dumps(rp, indent=1)[:6000])
        print("re-running the check for %s to replay obligation %s" % (args.prop, rp.get("obligation")))
    known = load_json(os.path.join(VERIF, "known_findings.json"), {"findings": []})
    kf_by_id = {k["id"]: k for k in known.get("findings", []) if k.get("status", "open") == "open"}

    units = args.units.split(",") if args.units else cfg["units"]
    seeds = (None,) if args.tier == "quick" else (None, 1 + seed, 2 + seed, 3 + seed)
    evidence = {"property_id": args.prop, "tier": args.tier, "seed": seed, "level": cfg.get("level", "proof"), "coverage": {}, "assumptions": list(cfg.get("assumptions", [])), "wall_s": 0.0, "violations": 0}
    cov = evidence["coverage"]
    cov.update({"obligations": 0, "discharged": 0, "checker_cmd": "", "trusted_base": [], "functions_under_contract": [], "units": [],
                "extraction": {"rewrites": [], "items": []}, "vacuity": [], "samples": [], "bounded": [], "kani_complete": [], "undecided": [],
                "known_findings_matched": [], "violations": [], "solver_time_ms": {}, "pinned_statements": [], "backend": {}})
    undecided = []
    violations = []
    kf_lines = []
    cmds = []
    standin_done = set()

    def standin(unit, why):
        """bounded stand-in: the function is outside the verifier's reach as written; run the unit's concrete
        driver on the real code (a failure there is a violation WITH a failing input; a pass does not turn
        undecided into proved)"""
        names = [n for n in (replay_run.UNIT_DRIVERS.get(unit) or []) if n not in standin_done]
        if not names:
            return
        standin_done.update(names)
        rr = replay_run.run_drivers(REPO, VERIF, names, outdir)
        cmds.append(rr["cmd"])
        for n in names:
            j = rr["results"].get(n)
            if not j:
                undecided.append("unit %s: bounded stand-in %s produced no result (%s)" % (unit, n, rr.get("error")))
                continue
            cov["bounded"].append({"driver": n, "why": "stand-in for unit %s (%s)" % (unit, why), "cases": j.get("cases"), "distinct_nontrivial": j.get("distinct_nontrivial"), "failures": len(j.get("failures", [])), "bound": "stated in the header of replay/%s.rs" % n.split("::")[0]})
            if j.get("failures"):
                violations.append({"obligation": "bounded::%s" % n, "kind": "bounded", "function": n, "label": None, "unit": unit, "clause": "real code vs executable contract on enumerated inputs",
                                   "message": "bounded check on the real code found a failing input (%s)" % why, "rendered": json.dumps(j["failures"][:3])[:3000], "site_text": "",
                                   "counterexample": {"driver": n, "failing_input": j["failures"][0], "cases_tried": j.get("cases")}})

    try:
        for unit in units:
            try:
                u = run_unit(unit, outdir, args.tier, seeds=seeds)
            except AnchorLost as e:
                undecided.append("anchor lost in unit %s: %s" % (unit, e))
                if not args.no_kani:
                    standin(unit, "anchor lost")
                continue
            except TemplateError as e:
                undecided.append("template error in unit %s: %s" % (unit, e))
                continue
            g = u["gen"]
            cmds.append(u["res"]["cmd"])
            nver = u["vr"].get("verified", 0)
            nerr = u["vr"].get("errors", 0)
            if u["hard"]:
                undecided.append("unit %s: verus rejected the generated file (unsupported construct or type error): %s" % (unit, "; ".join(h["message"][:160] for h in u["hard"][:3])))
                # bounded stand-in: the function is outside the verifier's reach as written; run the unit's
                # concrete driver on the real code (a failure there is a violation WITH a failing input;
                # a pass does not turn undecided into proved)
                if not args.no_kani:
                    standin(unit, "verus could not take the current text")
            if u["resource"] and not u["fails"]:
                undecided.append("unit %s: solver resource limit: %s" % (unit, u["resource"][:2]))
            if u["unstable"]:
                undecided.append("unit %s: result differs across solver seeds (brittle proof): %s" % (unit, u["unstable"]))
            if not u["vr"] and not u["hard"]:
                undecided.append("unit %s: verus produced no result (rc=%s): %s" % (unit, u["res"]["rc"], u["res"]["raw"][:3]))
            cov["obligations"] += nver + nerr
            cov["discharged"] += nver
            cov["units"].append({"unit": unit, "generated_file": u["path"], "verified": nver, "errors": nerr, "wall_s": round(u["res"]["wall"], 2),
                                 "functions": len(g.functions), "template_sha256": hashlib.sha256(open(os.path.join(VERIF, "units", unit + ".vspec"), "rb").read()).hexdigest()[:16]})
            for f in g.functions:
                cov["functions_under_contract"].append({"unit": unit, "file": f["file"], "function": f["qual"], "lines": "%d-%d" % (f["line"], f["end_line"]), "body_sha256": f["body_sha256"]})
            cov["extraction"]["rewrites"] += [dict(x, unit=unit) for x in g.log]
            cov["extraction"]["items"] += [dict(x, unit=unit) for x in g.items]
            cov["pinned_statements"] += [dict(x, unit=unit) for x in g.pins]
            for t in scan_trusted(u["text"]):
                cov["trusted_base"].append("%s: %s [%s:%d]" % (t["kind"], t["item"], unit, t["line"]))
            for k, v in u["breakdown"].items():
                cov["solver_time_ms"][k] = v.get("time")
                cov["backend"][k] = "verus/z3"
            minf = int((g.meta.get("expect_min_functions") or ["0"])[0])
            if len(g.functions) < minf or (nver + nerr) == 0:
                undecided.append("unit %s: vacuity guard: %d functions under contract (expected >= %d), %d verification units" % (unit, len(g.functions), minf, nver + nerr))
            # samples
            for f in g.functions[:3]:
                cov["samples"].append({"obligation": "%s::%s (all requires/ensures/invariants of this function, verus/z3)" % (unit, f["qual"]),
                                       "contract": " ".join(f["header_text"].split())[:600]})
            # ---- failures
            fails = u["fails"] if not u["hard"] else []
            if fails:
                # known findings: every failing obligation must be excusable and the excused re-run must pass
                labels = g.kf_labels
                need = set()
                unexcusable = []
                for f in fails:
                    ids = [i for i in labels.get((f["function"], f["label"]), []) if i in kf_by_id and kf_by_id[i]["property"] == args.prop or i in kf_by_id and args.prop in kf_by_id[i].get("also_properties", [])]
                    if ids and f["kind"] == "ensures":
                        need.update(ids)
                        f["excused_by"] = ids
                    else:
                        unexcusable.append(f)
                still = list(unexcusable)
                if need:
                    u2 = run_unit(unit, outdir, args.tier, excuses=sorted(need))
                    cmds.append(u2["res"]["cmd"])
                    if u2["hard"]:
                        undecided.append("unit %s (excused re-run): verus rejected the file: %s" % (unit, u2["hard"][0]["message"][:200]))
                    for f2 in u2["fails"]:
                        if not any(f2["obligation"] == x["obligation"] for x in still):
                            f2["note"] = "still fails with the listed known findings excused"
                            still.append(f2)
                    matched = [i for i in sorted(need) if not any(i in (x.get("excused_by") or []) for x in u2["fails"])]
                    if not u2["fails"] and not u2["hard"]:
                        # the clause guarded by the negated finding pattern is what is proved; the
                        # full-strength clause is reported as not discharged under known findings
                        n2 = u2["vr"].get("verified", 0)
                        cov["discharged"] += n2 - nver
                        cov["obligations"] += (n2 + u2["vr"].get("errors", 0)) - (nver + nerr)
                        cov.setdefault("full_strength_clauses_not_discharged", []).extend("%s::%s (excused by %s)" % (unit, f["obligation"], ",".join(f.get("excused_by", []))) for f in fails if f.get("excused_by"))
                        for i in sorted(need):
                            kf_lines.append("KNOWN-FINDING: property=%s %s: %s" % (args.prop, i, kf_by_id[i]["what_fails"]))
                            cov["known_findings_matched"].append(i)
                for f in still:
                    f["unit"] = unit
                    violations.append(f)
            # ---- vacuity twins (only meaningful when the unit itself is accepted)
            if not u["hard"]:
                tw = run_twins(u, outdir)
                cov["vacuity"].append({"unit": unit, "twins": tw["twinned"], "twins_checked": tw["checked"], "vacuous": tw["vacuous"], "not_twinned": tw["skipped"], "wall_s": round(tw["wall"], 2)})
                if tw["vacuous"]:
                    undecided.append("unit %s: vacuous contract (assert(false) verifies) in: %s" % (unit, tw["vacuous"]))
                if tw["checked"] == 0:
                    undecided.append("unit %s: vacuity guard could not check any function" % unit)
        # ---- configured bounded drivers (labelled bounded, never counted as proved)
        bcfg = [b for b in cfg.get("bounded", []) if args.tier == "thorough" or b.get("tier", "thorough") == "quick"]
        if bcfg and not args.no_kani:
            rr = replay_run.run_drivers(REPO, VERIF, [b["driver"] for b in bcfg], outdir, timeout=(2700 if args.tier == "thorough" else 1500))
            cmds.append(rr["cmd"])
            for b in bcfg:
                j = rr["results"].get(b["driver"])
                if not j:
                    undecided.append("bounded driver %s produced no result (%s)" % (b["driver"], rr.get("error")))
                    continue
                cov["bounded"].append({"driver": b["driver"], "what": b.get("what", ""), "bound": b.get("bound", ""), "cases": j.get("cases"), "distinct_nontrivial": j.get("distinct_nontrivial"), "failures": len(j.get("failures", []))})
                if evidence["level"] == "exploration":
                    cov["evaluations"] = cov.get("evaluations", 0) + int(j.get("cases") or 0)
                    cov["distinct_nontrivial"] = cov.get("distinct_nontrivial", 0) + int(j.get("distinct_nontrivial") or 0)
                    cov["rule"] = cfg.get("rule", b.get("bound", ""))
                    cov["exhaustive"] = bool(cfg.get("exhaustive", True))
                    cov["samples"] += [{"driver": b["driver"], "case": x} for x in (j.get("samples") or [])[:5]]
                # known-finding candidates classified by the driver: excused only while the finding is OPEN in known_findings.json
                for fid, cand in (j.get("kf_candidates") or {}).items():
                    if not cand or not cand.get("count"):
                        continue
                    openf = [f for f in known.get("findings", []) if f.get("id") == fid and f.get("status") == "open" and f.get("property") == args.prop and b["driver"].rsplit("_", 1)[0] in (f.get("driver") or "")]
                    if openf:
                        line = "KNOWN-FINDING: property=%s %s: %s (%d enumerated inputs match, e.g. %s)" % (args.prop, fid, openf[0].get("what_fails", ""), cand["count"], json.dumps(cand.get("example"))[:300])
                        if line not in kf_lines:
                            kf_lines.append(line)
                        if fid not in cov["known_findings_matched"]:
                            cov["known_findings_matched"].append(fid)
                    else:
                        j.setdefault("failures", []).append(cand.get("example"))
                if j.get("hangs") and not j.get("failures"):
                    undecided.append("bounded driver %s: %d program(s) did not finish within the watchdog limit, e.g. %s" % (b["driver"], len(j["hangs"]), j["hangs"][0]))
                if j.get("failures"):
                    violations.append({"obligation": "bounded::%s" % b["driver"], "kind": "bounded", "function": b["driver"], "label": None, "unit": "replay", "clause": b.get("what", ""),
                                       "message": "bounded check on the real code found a failing input", "rendered": json.dumps(j["failures"][:3])[:3000], "site_text": "",
                                       "counterexample": {"driver": b["driver"], "failing_input": j["failures"][0], "cases_tried": j.get("cases")}})
        # ---- Kani harnesses
        kcfg = cfg.get("kani")
        if kcfg and not args.no_kani:
            kr = kani_run.run(REPO, VERIF, args.prop, kcfg, args.tier, outdir)
            cmds += kr["cmds"]
            cov["kani_complete"] += kr["complete"]
            cov["bounded"] += kr["bounded"]
            for c in kr["complete"]:
                cov["obligations"] += c["checks"]
                cov["discharged"] += c["checks"] - c["failed"]
                cov["backend"][c["harness"]] = "kani/cbmc"
                cov["solver_time_ms"][c["harness"]] = int(c["time_s"] * 1000)
            cov["trusted_base"] += kr.get("trusted", [])
            undecided += kr["undecided"]
            for v in kr["violations"]:
                violations.append(v)
    except Undecided as e:
        undecided.append(str(e))

    cov["checker_cmd"] = " ; ".join(cmds)[:4000]
    cov["trusted_base"] = sorted(set(cov["trusted_base"]))
    cov["undecided"] = undecided
    evidence["wall_s"] = round(time.time() - t0, 2)

    rc = 0
    for ln in kf_lines:
        print(ln)
    if violations:
        rc = 1
        evidence["violations"] = len(violations)
        for v in violations:
            rp = write_replay(args.prop, v, outdir, cfg)
            cov["violations"].append({"obligation": v["obligation"], "replay": rp["path"], "counterexample": rp.get("found")})
            tail = "" if rp.get("found") else " no-failing-input-found"
            print("FAILED OBLIGATION %s::%s  (%s)" % (v.get("unit", ""), v["obligation"], v["message"]))
            print("VIOLATION property=%s replay=%s%s" % (args.prop, rp["path"], tail))
    elif undecided:
        rc = 2
        for u in undecided:
            print("UNDECIDED property=%s %s" % (args.prop, u))
    if rc == 2:
        # proof-level evidence must not claim discharged == obligations when nothing was decided
        pass
    os.makedirs(os.path.join(OUTBASE, "evidence"), exist_ok=True)
    json.dump(evidence, open(os.path.join(OUTBASE, "evidence", args.prop + ".json"), "w"), indent=1)
    if rc == 0:
        print("OK property=%s tier=%s obligations=%d discharged=%d units=%s wall=%.1fs" % (args.prop, args.tier, cov["obligations"], cov["discharged"], ",".join(units), evidence["wall_s"]))
    sys.exit(rc)


def write_replay(prop, v, outdir, cfg):
    """Replay file for a failed obligation.  Where a concrete replay driver
    exists for the unit it is run against the real code to look for a failing
    input; otherwise the file carries the verifier's output only."""
    name = re.sub(r"[^A-Za-z0-9_.#-]+", "_", v["obligation"])
    path = os.path.join(outdir, "replay-%s.json" % name)
    rp = {"property": prop, "unit": v.get("unit"), "obligation": v["obligation"], "kind": v["kind"], "clause": v.get("clause"), "site": v.get("site_text"),
          "verifier_message": v["message"], "verifier_output": v.get("rendered"), "note": v.get("note"),
          "rerun": "cd %s && python3 check.py %s --replay %s" % (VERIF, prop, path), "found": None}
    if v.get("counterexample"):
        rp["found"] = v["counterexample"]
    else:
        try:
            import replay_run
            rp["found"] = replay_run.search(REPO, VERIF, prop, v, outdir)
        except ImportError:
            pass
        except Exception as e:  # a broken search aid must not hide the violation
            rp["search_error"] = str(e)[:500]
    json.dump(rp, open(path, "w"), indent=1)
    rp["path"] = path
    return rp


if __name__ == "__main__":
    main()
