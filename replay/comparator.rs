// replay hooks for src/comparator.rs (included as a child module `verif_replay` of that file)
