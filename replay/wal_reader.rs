// replay hooks for src/wal/reader.rs (included as a child module `verif_replay` of that file)
