// Bounded-check driver for src/transaction.rs (child module `verif_replay`).
// C08: runs the REAL Transaction (on a real Tree in a temp dir) on every program up to the bound and
// compares every return value, and the state a fresh transaction sees afterwards, with an executable
// form of the property: read-your-writes = the latest pending write (issue order) over the snapshot;
// rollback_to_savepoint restores exactly the pending writes of set_savepoint time; rollback discards
// everything; commit applies the surviving writes in issue order; modes reject what they do not permit.
// Bound (stated): programs of <= 4 operations from {set, set_at(ts 100|200), delete, soft_delete,
// replace, get} x keys {a (present in the snapshot), b (absent)} + {set_savepoint,
// rollback_to_savepoint}, each ended by commit or rollback; read-write mode exhaustively, read-only and
// write-only modes for programs of length <= 2.
use super::*;
use crate::{Mode, TreeBuilder};

#[derive(Clone, Copy, Debug, PartialEq)]
enum Op {
	Set(u8),
	SetAt(u8, u64),
	Delete(u8),
	SoftDelete(u8),
	Replace(u8),
	Get(u8),
	Savepoint,
	RollbackSp,
}

fn alphabet() -> Vec<Op> {
	let mut v = Vec::new();
	for k in 0..2u8 {
		v.push(Op::Set(k));
		v.push(Op::SetAt(k, 100));
		v.push(Op::SetAt(k, 200));
		v.push(Op::Delete(k));
		v.push(Op::SoftDelete(k));
		v.push(Op::Replace(k));
		v.push(Op::Get(k));
	}
	v.push(Op::Savepoint);
	v.push(Op::RollbackSp);
	v
}

/// executable contract: pending writes in issue order + a stack of saved pending lists
#[derive(Clone, Default)]
struct Model {
	pending: Vec<(u8, Option<Vec<u8>>)>,
	saved: Vec<Vec<(u8, Option<Vec<u8>>)>>,
}
impl Model {
	fn read(&self, k: u8, base: &[Option<Vec<u8>>; 2]) -> Option<Vec<u8>> {
		match self.pending.iter().rev().find(|(kk, _)| *kk == k) {
			Some((_, v)) => v.clone(),
			None => base[k as usize].clone(),
		}
	}
}

fn keyname(prog: u64, k: u8) -> Vec<u8> {
	format!("p{prog:08}-{}", if k == 0 { "a" } else { "b" }).into_bytes()
}

#[tokio::test(flavor = "multi_thread", worker_threads = 2)]
async fn writeset_enum() {
	let dir = tempdir::TempDir::new("verif_c08").unwrap();
	let tree = TreeBuilder::new().with_path(dir.path().to_path_buf()).build().unwrap();
	let alpha = alphabet();
	let mut cases = 0u64;
	let mut nontrivial = 0u64;
	let mut failures: Vec<String> = Vec::new();
	let mut samples: Vec<String> = Vec::new();
	let mut prog_id = 0u64;
	for mode in [Mode::ReadWrite, Mode::ReadOnly, Mode::WriteOnly] {
		let maxlen = if mode == Mode::ReadWrite { 4 } else { 2 };
		for len in 1..=maxlen {
			let total = alpha.len().pow(len as u32);
			for code in 0..total {
				let mut ops = Vec::new();
				let mut x = code;
				for _ in 0..len {
					ops.push(alpha[x % alpha.len()]);
					x /= alpha.len();
				}
				for &commit in &[true, false] {
					prog_id += 1;
					cases += 1;
					// snapshot state: key a present, key b absent
					{
						let mut t = tree.begin().unwrap();
						t.set(keyname(prog_id, 0), b"base".to_vec()).unwrap();
						t.commit().await.unwrap();
					}
					let base = [Some(b"base".to_vec()), None];
					let mut tx = tree.begin_with_mode(mode).unwrap();
					let mut m = Model::default();
					let mut bad: Option<String> = None;
					let mut wrote = 0;
					for (i, op) in ops.iter().enumerate() {
						let val = format!("v{i}").into_bytes();
						let can_write = mode != Mode::ReadOnly;
						let can_read = mode != Mode::WriteOnly;
						let (res_ok, expect_ok): (bool, bool) = match *op {
							Op::Set(k) => (tx.set(keyname(prog_id, k), val.clone()).is_ok(), can_write),
							Op::SetAt(k, ts) => (tx.set_at(keyname(prog_id, k), val.clone(), ts).is_ok(), can_write),
							Op::Delete(k) => (tx.delete(keyname(prog_id, k)).is_ok(), can_write),
							Op::SoftDelete(k) => (tx.soft_delete(keyname(prog_id, k)).is_ok(), can_write),
							Op::Replace(k) => (tx.replace(keyname(prog_id, k), val.clone()).is_ok(), can_write),
							Op::Get(k) => {
								let r = tx.get(keyname(prog_id, k));
								if can_read {
									let want = m.read(k, &base);
									match &r {
										Ok(got) if *got == want => {}
										other => bad = Some(format!("op {i} get({k}) returned {:?}, contract says {:?}", other.as_ref().map_err(|e| e.to_string()), want)),
									}
								}
								(r.is_ok(), can_read)
							}
							Op::Savepoint => (tx.set_savepoint().is_ok(), can_write),
							Op::RollbackSp => (tx.rollback_to_savepoint().is_ok(), can_write && !m.saved.is_empty()),
						};
						if res_ok != expect_ok && bad.is_none() {
							bad = Some(format!("op {i} {:?} returned ok={res_ok}, contract says ok={expect_ok}", op));
						}
						if expect_ok {
							match *op {
								Op::Set(k) | Op::SetAt(k, _) | Op::Replace(k) => { m.pending.push((k, Some(val))); wrote += 1; }
								Op::Delete(k) | Op::SoftDelete(k) => { m.pending.push((k, None)); wrote += 1; }
								Op::Savepoint => m.saved.push(m.pending.clone()),
								Op::RollbackSp => m.pending = m.saved.pop().unwrap(),
								Op::Get(_) => {}
							}
						}
					}
					// end of transaction
					let fin_ok = if commit { tx.commit().await.is_ok() } else { tx.rollback(); true };
					if commit && !fin_ok && mode != Mode::ReadOnly && bad.is_none() {
						bad = Some("commit failed".to_string());
					}
					// closed transactions reject everything
					if fin_ok && tx.get(keyname(prog_id, 0)).is_ok() && mode != Mode::WriteOnly && bad.is_none() {
						bad = Some("get on a closed transaction succeeded".to_string());
					}
					drop(tx);
					// what others see afterwards
					let after = tree.begin().unwrap();
					for k in 0..2u8 {
						let want = if commit && mode != Mode::ReadOnly { m.read(k, &base) } else { base[k as usize].clone() };
						let got = after.get(keyname(prog_id, k)).unwrap();
						if got != want && bad.is_none() {
							bad = Some(format!("after {}: key {k} reads {:?}, contract says {:?}", if commit { "commit" } else { "rollback" }, got, want));
						}
					}
					if wrote >= 2 && ops.iter().any(|o| matches!(o, Op::Savepoint | Op::RollbackSp | Op::Get(_))) {
						nontrivial += 1;
					}
					if samples.len() < 3 && len == 4 && wrote >= 2 && ops.contains(&Op::RollbackSp) {
						samples.push(format!("\"{:?} mode={:?} end={}\"", ops, mode, if commit { "commit" } else { "rollback" }));
					}
					if let Some(b) = bad {
						if failures.len() < 5 {
							failures.push(format!("{{\"mode\":\"{:?}\",\"program\":\"{:?}\",\"end\":\"{}\",\"mismatch\":{:?}}}", mode, ops, if commit { "commit" } else { "rollback" }, b));
						}
					}
				}
			}
		}
	}
	println!(
		"REPLAY-RESULT {{\"driver\":\"transaction::writeset_enum\",\"cases\":{},\"distinct_nontrivial\":{},\"samples\":[{}],\"failures\":[{}]}}",
		cases,
		nontrivial,
		samples.join(","),
		failures.join(",")
	);
	assert!(failures.is_empty());
}

// ------------------------------------------------------------------------------------------------
// C09 bounded check: the REAL range cursor (Transaction::range_with_options -> TransactionRangeIterator
// over SnapshotIterator / KMergeIterator / memtable + table iterators) against a cursor over the sorted
// list of live keys inside [lower, upper).
// Every key gets one of a list of layer patterns over four layers written in this order:
//   table (flushed), immutable memtable (rotated, not flushed), active memtable, write set of the reading
//   transaction; each layer holds nothing, a value, or a delete for the key.
// Bound (stated): `nkeys` keys k1.. with every combination of `patterns` layer patterns; bounds from
// {absent, k0, k1, k1x, k2, k3, k4, k9} on either side (including empty and inverted ranges); every cursor
// program of <= `maxlen` calls from {seek_first, seek_last, seek(t) for t in the bound list inside the range,
// next, prev}; after the cursor has run off an end only seeks are issued.
#[derive(Clone, Copy, Debug, PartialEq)]
enum L {
	N,
	S,
	D,
}
#[derive(Clone, Copy, Debug, PartialEq)]
enum CurOp {
	First,
	Last,
	Seek(usize),
	Next,
	Prev,
}

const PATTERNS: [[L; 4]; 12] = [
	[L::N, L::N, L::N, L::N], // absent
	[L::S, L::N, L::N, L::N], // only in a table
	[L::N, L::N, L::S, L::N], // only in the active memtable
	[L::S, L::N, L::D, L::N], // table value deleted in the memtable
	[L::N, L::N, L::N, L::S], // only in the write set
	[L::N, L::S, L::N, L::N], // only in the immutable memtable
	[L::S, L::D, L::N, L::N], // table value deleted in the immutable memtable
	[L::S, L::N, L::N, L::D], // table value deleted in the write set
	[L::S, L::S, L::S, L::N], // three versions
	[L::D, L::N, L::S, L::N], // tombstone in the table, value above
	[L::S, L::D, L::S, L::S], // everything
	[L::N, L::S, L::N, L::D], // immutable value deleted in the write set
];

async fn cursor_enum_impl(nkeys: usize, npat: usize, maxlen: usize, all_bounds: bool, deep_every: usize, name: &str) {
	use crate::compaction::leveled::Strategy;
	use crate::{LSMIterator as _, ReadOptions};
	let bound_list: Vec<Option<Vec<u8>>> = if all_bounds {
		vec![None, Some(b"k0".to_vec()), Some(b"k1".to_vec()), Some(b"k1x".to_vec()), Some(b"k2".to_vec()), Some(b"k3".to_vec()), Some(b"k4".to_vec()), Some(b"k9".to_vec())]
	} else {
		vec![None, Some(b"k1".to_vec()), Some(b"k2".to_vec()), Some(b"k3".to_vec()), Some(b"k9".to_vec())]
	};
	let js = |b: &Option<Vec<u8>>| match b {
		None => "null".to_string(),
		Some(x) => format!("\"{}\"", String::from_utf8_lossy(x)),
	};
	let mut cases = 0u64;
	let mut nontrivial = 0u64;
	let mut failures: Vec<String> = Vec::new();
	let mut samples: Vec<String> = Vec::new();
	// cursor programs
	let mut progs: Vec<Vec<CurOp>> = Vec::new();
	let mut alpha = vec![CurOp::First, CurOp::Last, CurOp::Next, CurOp::Prev];
	for t in 1..bound_list.len() {
		alpha.push(CurOp::Seek(t));
	}
	for len in 1..=maxlen {
		for code in 0..alpha.len().pow(len as u32) {
			let mut p = Vec::new();
			let mut x = code;
			for _ in 0..len {
				p.push(alpha[x % alpha.len()]);
				x /= alpha.len();
			}
			// a program starts with a positioning call
			if matches!(p[0], CurOp::Next | CurOp::Prev) {
				continue;
			}
			progs.push(p);
		}
	}
	let mut deep_layouts = 0u64;
	for layout2 in 0..2 * npat.pow(nkeys as u32) {
		// every layout is run flat (one level-0 table) and - every `deep_every`-th one - also DEEP: older versions
		// of the table keys sit in a level-1 table below the level-0 table (tables on several levels)
		let layout = layout2 / 2;
		let deep = layout2 % 2 == 1;
		if deep && layout % deep_every != 0 {
			continue;
		}
		let mut pats = Vec::new();
		let mut x = layout;
		for _ in 0..nkeys {
			pats.push(PATTERNS[x % npat]);
			x /= npat;
		}
		let dir = tempdir::TempDir::new("verif_c09").unwrap();
		let (tree, opts) = TreeBuilder::new().with_path(dir.path().to_path_buf()).with_level_count(3).build_with_options().unwrap();
		let mut model: std::collections::BTreeMap<Vec<u8>, Vec<u8>> = std::collections::BTreeMap::new();
		let key = |i: usize| format!("k{}", i + 1).into_bytes();
		if deep {
			let mut o = (*opts).clone();
			o.level0_max_files = 1;
			let strat: Arc<dyn crate::compaction::CompactionStrategy> = Arc::new(Strategy::from_options(Arc::new(o)));
			let mut t = tree.begin().unwrap();
			let mut any = false;
			for (i, p) in pats.iter().enumerate() {
				if p[0] != L::N {
					t.set(key(i), format!("old{}", i + 1).into_bytes()).unwrap();
					any = true;
				}
			}
			if !any {
				// a key outside every pattern keeps the level-1 table non-empty; it is part of the model
				t.set(b"k0x".to_vec(), b"deep".to_vec()).unwrap();
				model.insert(b"k0x".to_vec(), b"deep".to_vec());
			}
			t.commit().await.unwrap();
			let _ = tree.flush();
			let _ = tree.compact(strat.clone());
			let on_l1 = tree.core.inner.level_manifest.read().map(|m| m.levels.0.iter().skip(1).map(|l| l.tables.len()).sum::<usize>()).unwrap_or(0);
			if on_l1 > 0 {
				deep_layouts += 1;
			}
		}
		for layer in 0..3usize {
			let mut any = false;
			let mut t = tree.begin().unwrap();
			for (i, p) in pats.iter().enumerate() {
				match p[layer] {
					L::N => {}
					L::S => {
						let v = format!("v{}_{layer}", i + 1).into_bytes();
						t.set(key(i), v.clone()).unwrap();
						model.insert(key(i), v);
						any = true;
					}
					L::D => {
						t.delete(key(i)).unwrap();
						model.remove(&key(i));
						any = true;
					}
				}
			}
			if any {
				t.commit().await.unwrap();
			}
			match layer {
				0 => {
					let _ = tree.flush();
				}
				1 => {
					let _ = tree.core.inner.rotate_memtable();
				}
				_ => {}
			}
		}
		let mut tx = tree.begin().unwrap();
		for (i, p) in pats.iter().enumerate() {
			match p[3] {
				L::N => {}
				L::S => {
					let v = format!("v{}_ws", i + 1).into_bytes();
					tx.set(key(i), v.clone()).unwrap();
					model.insert(key(i), v);
				}
				L::D => {
					tx.delete(key(i)).unwrap();
					model.remove(&key(i));
				}
			}
		}
		for lo in &bound_list {
			for hi in &bound_list {
				let live: Vec<(Vec<u8>, Vec<u8>)> = model
					.iter()
					.filter(|(k, _)| lo.as_ref().map_or(true, |l| *k >= l) && hi.as_ref().map_or(true, |h| *k < h))
					.map(|(k, v)| (k.clone(), v.clone()))
					.collect();
				let mut ro = ReadOptions::new();
				ro.set_iterate_lower_bound(lo.clone());
				ro.set_iterate_upper_bound(hi.clone());
				for p in &progs {
					// seek targets must lie inside the bounds
					if p.iter().any(|o| matches!(o, CurOp::Seek(t) if !(lo.as_ref().map_or(true, |l| bound_list[*t].as_ref().unwrap() >= l) && hi.as_ref().map_or(true, |h| bound_list[*t].as_ref().unwrap() < h)))) {
						continue;
					}
					cases += 1;
					if live.len() >= 2 && p.len() >= 2 {
						nontrivial += 1;
					}
					let run = || -> Option<String> {
						let mut it = match tx.range_with_options(&ro) {
							Ok(it) => it,
							Err(e) => return Some(format!("range_with_options failed: {e}")),
						};
						let mut pos: Option<usize> = None; // model cursor
						for (step, op) in p.iter().enumerate() {
							if pos.is_none() && matches!(op, CurOp::Next | CurOp::Prev) {
								break; // off the end: only seeks may follow
							}
							let (got, want) = match *op {
								CurOp::First => (it.seek_first(), if live.is_empty() { None } else { Some(0) }),
								CurOp::Last => (it.seek_last(), if live.is_empty() { None } else { Some(live.len() - 1) }),
								CurOp::Seek(t) => {
									let target = bound_list[t].as_ref().unwrap();
									(it.seek(target), live.iter().position(|(k, _)| k >= target))
								}
								CurOp::Next => (it.next(), pos.and_then(|i| if i + 1 < live.len() { Some(i + 1) } else { None })),
								CurOp::Prev => (it.prev(), pos.and_then(|i| if i > 0 { Some(i - 1) } else { None })),
							};
							pos = want;
							let real = match got {
								Err(e) => return Some(format!("call #{step} {:?} failed: {e}", op)),
								Ok(v) => v,
							};
							let real_entry = if real && it.valid() { Some((it.key().user_key().to_vec(), it.value().unwrap_or_default())) } else { None };
							let want_entry = want.map(|i| live[i].clone());
							if real != it.valid() || real_entry != want_entry {
								return Some(format!(
									"after call #{step} {:?}: cursor is at {:?} (returned {real}, valid {}), the sorted list of live keys says {:?}",
									op,
									real_entry.as_ref().map(|(k, v)| (String::from_utf8_lossy(k).to_string(), String::from_utf8_lossy(v).to_string())),
									it.valid(),
									want_entry.as_ref().map(|(k, v)| (String::from_utf8_lossy(k).to_string(), String::from_utf8_lossy(v).to_string()))
								));
							}
						}
						None
					};
					let bad = match std::panic::catch_unwind(std::panic::AssertUnwindSafe(run)) {
						Ok(b) => b,
						Err(_) => Some("the cursor PANICKED (message on stderr of the driver run)".to_string()),
					};
					if let Some(b) = bad {
						if failures.len() < 5 {
							failures.push(format!(
								"{{\"layers_per_key(table,immutable,memtable,writeset)\":\"{:?}\",\"older_versions_of_the_table_keys_in_a_level1_table\":{deep},\"lower\":{},\"upper\":{},\"cursor_program\":\"{:?}\",\"seek_targets\":\"index into the bound list [{}]\",\"mismatch\":{:?}}}",
								pats,
								js(lo),
								js(hi),
								p,
								bound_list.iter().map(|b| b.as_ref().map(|x| String::from_utf8_lossy(x).to_string()).unwrap_or("-".into())).collect::<Vec<_>>().join(" "),
								b
							));
						}
					} else if samples.len() < 3 && live.len() >= 3 && p.len() == maxlen && p.contains(&CurOp::Prev) && p.contains(&CurOp::Next) {
						samples.push(format!("\"{:?} lower={} upper={} {:?}\"", pats, lo.as_ref().map(|b| String::from_utf8_lossy(b).to_string()).unwrap_or("-".into()), hi.as_ref().map(|b| String::from_utf8_lossy(b).to_string()).unwrap_or("-".into()), p));
					}
				}
			}
		}
		drop(tx);
		let _ = tree.close().await;
	}
	println!(
		"REPLAY-RESULT {{\"driver\":\"transaction::{name}\",\"cases\":{cases},\"distinct_nontrivial\":{nontrivial},\"layouts_with_a_level1_table\":{deep_layouts},\"samples\":[{}],\"failures\":[{}]}}",
		samples.join(","),
		failures.join(",")
	);
	assert!(failures.is_empty());
}

#[tokio::test(flavor = "multi_thread", worker_threads = 2)]
async fn cursor_enum_quick() {
	cursor_enum_impl(3, 5, 3, false, 1, "cursor_enum_quick").await;
}

#[tokio::test(flavor = "multi_thread", worker_threads = 2)]
async fn cursor_enum_thorough() {
	cursor_enum_impl(3, 12, 3, true, 2, "cursor_enum_thorough").await;
}

// ------------------------------------------------------------------------------------------------
// C04 / C05 bounded check (sequential schedules on the real Tree, real oracle and commit pipeline):
// first committer wins.  A commit succeeds IFF no transaction that committed after this one began wrote one
// of its keys; a refused commit gets a conflict / retry error and none of its writes take effect; after every
// step a fresh reader sees exactly the writes of the commits that succeeded so far, in commit order, and every
// open read-write transaction still reads its begin-time state of the keys it has not written.
// Bound (stated): 2 transactions x every interleaving of [begin, write, commit] x every non-empty key subset of
// {a, b} each x mode {read-write, write-only} x each write a value or a delete (2880 schedules); 3 read-write
// transactions x every interleaving x one key each from {a, b} x 4 set/delete patterns (53760 schedules).  No real concurrency: every step runs to completion.
#[derive(Clone, Copy, Debug, PartialEq)]
enum Step {
	Begin(usize),
	Write(usize),
	Commit(usize),
}

fn interleavings(n: usize) -> Vec<Vec<Step>> {
	fn rec(next: &mut Vec<usize>, n: usize, cur: &mut Vec<Step>, out: &mut Vec<Vec<Step>>) {
		if next.iter().all(|&x| x == 3) {
			out.push(cur.clone());
			return;
		}
		for i in 0..n {
			if next[i] < 3 {
				cur.push(match next[i] {
					0 => Step::Begin(i),
					1 => Step::Write(i),
					_ => Step::Commit(i),
				});
				next[i] += 1;
				rec(next, n, cur, out);
				next[i] -= 1;
				cur.pop();
			}
		}
	}
	let mut out = Vec::new();
	rec(&mut vec![0; n], n, &mut Vec::new(), &mut out);
	out
}

#[tokio::test(flavor = "multi_thread", worker_threads = 2)]
async fn conflict_enum() {
	let dir = tempdir::TempDir::new("verif_c04").unwrap();
	let tree = TreeBuilder::new().with_path(dir.path().to_path_buf()).build().unwrap();
	let mut cases = 0u64;
	let mut nontrivial = 0u64;
	let mut failures: Vec<String> = Vec::new();
	let mut samples: Vec<String> = Vec::new();
	let mut prog = 0u64;
	for n in [2usize, 3] {
		let scheds = interleavings(n);
		let keysets: Vec<Vec<Vec<u8>>> = if n == 2 {
			let opts = [vec![0u8], vec![1u8], vec![0u8, 1u8]];
			let mut v = Vec::new();
			for a in &opts {
				for b in &opts {
					v.push(vec![a.clone(), b.clone()]);
				}
			}
			v
		} else {
			let mut v = Vec::new();
			for c in 0..8usize {
				v.push((0..3).map(|i| vec![((c >> i) & 1) as u8]).collect());
			}
			v
		};
		let modesets: Vec<Vec<Mode>> = if n == 2 { vec![vec![Mode::ReadWrite, Mode::ReadWrite], vec![Mode::ReadWrite, Mode::WriteOnly], vec![Mode::WriteOnly, Mode::ReadWrite], vec![Mode::WriteOnly, Mode::WriteOnly]] } else { vec![vec![Mode::ReadWrite; 3]] };
		// what each transaction writes: a value or a (hard) delete
		let delsets: Vec<Vec<bool>> = if n == 2 { vec![vec![false, false], vec![false, true], vec![true, false], vec![true, true]] } else { vec![vec![false, false, false], vec![false, true, false], vec![false, false, true], vec![true, false, false]] };
		for sched in &scheds {
			for ks in &keysets {
				for modes in &modesets {
				for dels in &delsets {
					cases += 1;
					prog += 1;
					let kname = |k: u8| format!("p{prog:06}_{}", (b'a' + k) as char).into_bytes();
					// seed value so that reads have something to see
					{
						let mut t = tree.begin().unwrap();
						t.set(kname(0), b"init".to_vec()).unwrap();
						t.set(kname(1), b"init".to_vec()).unwrap();
						t.commit().await.unwrap();
					}
					let mut model: [Vec<u8>; 2] = [b"init".to_vec(), b"init".to_vec()];
					let mut txs: Vec<Option<crate::Transaction>> = (0..n).map(|_| None).collect();
					let mut begin_state: Vec<[Vec<u8>; 2]> = vec![model.clone(); n];
					// keys written by commits that succeeded after transaction i began
					let mut dirty_since_begin: Vec<std::collections::HashSet<u8>> = vec![Default::default(); n];
					let mut bad: Option<String> = None;
					let mut had_conflict = false;
					for (si, st) in sched.iter().enumerate() {
						match *st {
							Step::Begin(i) => {
								txs[i] = Some(tree.begin_with_mode(modes[i]).unwrap());
								begin_state[i] = model.clone();
								dirty_since_begin[i].clear();
							}
							Step::Write(i) => {
								for &k in &ks[i] {
									if dels[i] {
										txs[i].as_mut().unwrap().delete(kname(k)).unwrap();
									} else {
										txs[i].as_mut().unwrap().set(kname(k), format!("t{i}").into_bytes()).unwrap();
									}
								}
							}
							Step::Commit(i) => {
								let mut t = txs[i].take().unwrap();
								let must_conflict = ks[i].iter().any(|k| dirty_since_begin[i].contains(k));
								let r = t.commit().await;
								match (&r, must_conflict) {
									(Ok(()), false) => {
										for &k in &ks[i] {
											model[k as usize] = if dels[i] { Vec::new() } else { format!("t{i}").into_bytes() };
											for (j, d) in dirty_since_begin.iter_mut().enumerate() {
												if j != i {
													d.insert(k);
												}
											}
										}
									}
									(Err(crate::Error::TransactionWriteConflict), true) | (Err(crate::Error::TransactionRetry), true) => {
										had_conflict = true;
									}
									(Ok(()), true) => bad = Some(format!("step {si}: transaction {i} committed although a transaction that committed after it began wrote one of its keys (lost update)")),
									(Err(e), false) => bad = Some(format!("step {si}: transaction {i} was refused ({e}) although none of its keys was written by a transaction that committed after it began")),
									(Err(e), true) => bad = Some(format!("step {si}: transaction {i} failed with {e}, expected a conflict or retry error")),
								}
							}
						}
						if bad.is_some() {
							break;
						}
						// a fresh reader sees exactly the successful commits; open read-write transactions keep their view
						let fresh = tree.begin().unwrap();
						for k in 0..2u8 {
							let got = fresh.get(kname(k)).unwrap().unwrap_or_default();
							if got != model[k as usize] {
								bad = Some(format!("after step {si} {:?}: a fresh reader reads {:?} for key {}, the committed state is {:?}", st, String::from_utf8_lossy(&got), (b'a' + k) as char, String::from_utf8_lossy(&model[k as usize])));
							}
						}
						for i in 0..n {
							if let Some(t) = txs[i].as_ref() {
								if modes[i] == Mode::WriteOnly {
									continue;
								}
								let wrote = sched[..=si].contains(&Step::Write(i));
								for k in 0..2u8 {
									if wrote && ks[i].contains(&k) {
										continue;
									}
									let got = t.get(kname(k)).unwrap().unwrap_or_default();
									if got != begin_state[i][k as usize] && bad.is_none() {
										bad = Some(format!("after step {si} {:?}: open transaction {i} reads {:?} for key {}, its begin-time state is {:?}", st, String::from_utf8_lossy(&got), (b'a' + k) as char, String::from_utf8_lossy(&begin_state[i][k as usize])));
									}
								}
							}
						}
						if bad.is_some() {
							break;
						}
					}
					if had_conflict {
						nontrivial += 1;
						if samples.len() < 3 && n == 3 {
							samples.push(format!("\"{:?} keys {:?}\"", sched, ks));
						}
					}
					if let Some(b) = bad {
						if failures.len() < 5 {
							failures.push(format!("{{\"schedule\":\"{:?}\",\"keys_written_per_transaction(0=a,1=b)\":\"{:?}\",\"write_is_delete\":\"{:?}\",\"modes\":\"{:?}\",\"mismatch\":{:?}}}", sched, ks, dels, modes, b));
						}
					}
				}
				}
			}
		}
	}
	println!(
		"REPLAY-RESULT {{\"driver\":\"transaction::conflict_enum\",\"cases\":{cases},\"distinct_nontrivial\":{nontrivial},\"samples\":[{}],\"failures\":[{}]}}",
		samples.join(","),
		failures.join(",")
	);
	assert!(failures.is_empty());
}
