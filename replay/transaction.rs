// replay hooks for src/transaction.rs (included as a child module `verif_replay` of that file)
