// Bounded-check driver for src/transaction.rs (child module `verif_replay`).
// C08: runs the REAL Transaction (on a real Tree in a temp dir) on every program up to the bound and
// compares every return value, and the state a fresh transaction sees afterwards, with an executable
// form of the property: read-your-writes = the latest pending write (issue order) over the snapshot;
// rollback_to_savepoint restores exactly the pending writes of set_savepoint time; rollback discards
// everything; commit applies the surviving writes in issue order; modes reject what they do not permit.
// Bound (stated): programs of <= 4 operations from {set, set_at(ts 100|200), delete, soft_delete,
// replace, get} x keys {a (present in the snapshot), b (absent)} + {set_savepoint,
// rollback_to_savepoint}, each ended by commit or rollback; read-write mode exhaustively, read-only and
// write-only modes for programs of length <= 2.
use super::*;
use crate::{Mode, TreeBuilder};

#[derive(Clone, Copy, Debug, PartialEq)]
enum Op {
	Set(u8),
	SetAt(u8, u64),
	Delete(u8),
	SoftDelete(u8),
	Replace(u8),
	Get(u8),
	Savepoint,
	RollbackSp,
}

fn alphabet() -> Vec<Op> {
	let mut v = Vec::new();
	for k in 0..2u8 {
		v.push(Op::Set(k));
		v.push(Op::SetAt(k, 100));
		v.push(Op::SetAt(k, 200));
		v.push(Op::Delete(k));
		v.push(Op::SoftDelete(k));
		v.push(Op::Replace(k));
		v.push(Op::Get(k));
	}
	v.push(Op::Savepoint);
	v.push(Op::RollbackSp);
	v
}

/// executable contract: pending writes in issue order + a stack of saved pending lists
#[derive(Clone, Default)]
struct Model {
	pending: Vec<(u8, Option<Vec<u8>>)>,
	saved: Vec<Vec<(u8, Option<Vec<u8>>)>>,
}
impl Model {
	fn read(&self, k: u8, base: &[Option<Vec<u8>>; 2]) -> Option<Vec<u8>> {
		match self.pending.iter().rev().find(|(kk, _)| *kk == k) {
			Some((_, v)) => v.clone(),
			None => base[k as usize].clone(),
		}
	}
}

fn keyname(prog: u64, k: u8) -> Vec<u8> {
	format!("p{prog:08}-{}", if k == 0 { "a" } else { "b" }).into_bytes()
}

#[tokio::test(flavor = "multi_thread", worker_threads = 2)]
async fn writeset_enum() {
	let dir = tempdir::TempDir::new("verif_c08").unwrap();
	let tree = TreeBuilder::new().with_path(dir.path().to_path_buf()).build().unwrap();
	let alpha = alphabet();
	let mut cases = 0u64;
	let mut nontrivial = 0u64;
	let mut failures: Vec<String> = Vec::new();
	let mut samples: Vec<String> = Vec::new();
	let mut prog_id = 0u64;
	for mode in [Mode::ReadWrite, Mode::ReadOnly, Mode::WriteOnly] {
		let maxlen = if mode == Mode::ReadWrite { 4 } else { 2 };
		for len in 1..=maxlen {
			let total = alpha.len().pow(len as u32);
			for code in 0..total {
				let mut ops = Vec::new();
				let mut x = code;
				for _ in 0..len {
					ops.push(alpha[x % alpha.len()]);
					x /= alpha.len();
				}
				for &commit in &[true, false] {
					prog_id += 1;
					cases += 1;
					// snapshot state: key a present, key b absent
					{
						let mut t = tree.begin().unwrap();
						t.set(keyname(prog_id, 0), b"base".to_vec()).unwrap();
						t.commit().await.unwrap();
					}
					let base = [Some(b"base".to_vec()), None];
					let mut tx = tree.begin_with_mode(mode).unwrap();
					let mut m = Model::default();
					let mut bad: Option<String> = None;
					let mut wrote = 0;
					for (i, op) in ops.iter().enumerate() {
						let val = format!("v{i}").into_bytes();
						let can_write = mode != Mode::ReadOnly;
						let can_read = mode != Mode::WriteOnly;
						let (res_ok, expect_ok): (bool, bool) = match *op {
							Op::Set(k) => (tx.set(keyname(prog_id, k), val.clone()).is_ok(), can_write),
							Op::SetAt(k, ts) => (tx.set_at(keyname(prog_id, k), val.clone(), ts).is_ok(), can_write),
							Op::Delete(k) => (tx.delete(keyname(prog_id, k)).is_ok(), can_write),
							Op::SoftDelete(k) => (tx.soft_delete(keyname(prog_id, k)).is_ok(), can_write),
							Op::Replace(k) => (tx.replace(keyname(prog_id, k), val.clone()).is_ok(), can_write),
							Op::Get(k) => {
								let r = tx.get(keyname(prog_id, k));
								if can_read {
									let want = m.read(k, &base);
									match &r {
										Ok(got) if *got == want => {}
										other => bad = Some(format!("op {i} get({k}) returned {:?}, contract says {:?}", other.as_ref().map_err(|e| e.to_string()), want)),
									}
								}
								(r.is_ok(), can_read)
							}
							Op::Savepoint => (tx.set_savepoint().is_ok(), can_write),
							Op::RollbackSp => (tx.rollback_to_savepoint().is_ok(), can_write && !m.saved.is_empty()),
						};
						if res_ok != expect_ok && bad.is_none() {
							bad = Some(format!("op {i} {:?} returned ok={res_ok}, contract says ok={expect_ok}", op));
						}
						if expect_ok {
							match *op {
								Op::Set(k) | Op::SetAt(k, _) | Op::Replace(k) => { m.pending.push((k, Some(val))); wrote += 1; }
								Op::Delete(k) | Op::SoftDelete(k) => { m.pending.push((k, None)); wrote += 1; }
								Op::Savepoint => m.saved.push(m.pending.clone()),
								Op::RollbackSp => m.pending = m.saved.pop().unwrap(),
								Op::Get(_) => {}
							}
						}
					}
					// end of transaction
					let fin_ok = if commit { tx.commit().await.is_ok() } else { tx.rollback(); true };
					if commit && !fin_ok && mode != Mode::ReadOnly && bad.is_none() {
						bad = Some("commit failed".to_string());
					}
					// closed transactions reject everything
					if fin_ok && tx.get(keyname(prog_id, 0)).is_ok() && mode != Mode::WriteOnly && bad.is_none() {
						bad = Some("get on a closed transaction succeeded".to_string());
					}
					drop(tx);
					// what others see afterwards
					let after = tree.begin().unwrap();
					for k in 0..2u8 {
						let want = if commit && mode != Mode::ReadOnly { m.read(k, &base) } else { base[k as usize].clone() };
						let got = after.get(keyname(prog_id, k)).unwrap();
						if got != want && bad.is_none() {
							bad = Some(format!("after {}: key {k} reads {:?}, contract says {:?}", if commit { "commit" } else { "rollback" }, got, want));
						}
					}
					if wrote >= 2 && ops.iter().any(|o| matches!(o, Op::Savepoint | Op::RollbackSp | Op::Get(_))) {
						nontrivial += 1;
					}
					if samples.len() < 3 && len == 4 && wrote >= 2 && ops.contains(&Op::RollbackSp) {
						samples.push(format!("\"{:?} mode={:?} end={}\"", ops, mode, if commit { "commit" } else { "rollback" }));
					}
					if let Some(b) = bad {
						if failures.len() < 5 {
							failures.push(format!("{{\"mode\":\"{:?}\",\"program\":\"{:?}\",\"end\":\"{}\",\"mismatch\":{:?}}}", mode, ops, if commit { "commit" } else { "rollback" }, b));
						}
					}
				}
			}
		}
	}
	println!(
		"REPLAY-RESULT {{\"driver\":\"transaction::writeset_enum\",\"cases\":{},\"distinct_nontrivial\":{},\"samples\":[{}],\"failures\":[{}]}}",
		cases,
		nontrivial,
		samples.join(","),
		failures.join(",")
	);
	assert!(failures.is_empty());
}
