// Replay / bounded-check driver for src/iter.rs (child module `verif_replay` of that file).
// Runs the REAL CompactionIterator::process_accumulated_versions on enumerated small inputs and
// compares the output with the executable form of the contract's keep_rule.
// Bound (stated): <= 4 versions per key, kinds {Set, Delete, SoftDelete, Replace}, sequence numbers
// from {10,20,30,40}, timestamps {fresh, expired}, snapshot lists = all subsets of {5,15,25,35,45},
// bottom/non-bottom, versioning on/off, retention {0, 100}.
use super::*;
use crate::clock::MockLogicalClock;
use crate::comparator::{BytewiseComparator, InternalKeyComparator};
use crate::InternalKeyKind;

fn keep_rule(v: &[(u64, InternalKeyKind, u64)], s: &[u64], bottom: bool, versioning: bool, retention: u64, now: u64, j: usize) -> bool {
	let hard = |k: InternalKeyKind| matches!(k, InternalKeyKind::Delete | InternalKeyKind::RangeDelete);
	let whole_key_drop = bottom && hard(v[0].1) && (s.is_empty() || s[0] >= v[0].0);
	if whole_key_drop {
		return false;
	}
	let needed = j == 0 || s.iter().any(|&x| v[j].0 <= x && x < v[j - 1].0);
	let under_replace = v[..j].iter().any(|e| matches!(e.1, InternalKeyKind::Replace));
	let expired = retention > 0 && now.saturating_sub(v[j].2) > retention;
	needed || (versioning && !under_replace && !expired)
}

fn run_real(v: &[(u64, InternalKeyKind, u64)], s: &[u64], bottom: bool, versioning: bool, retention: u64, now: u64) -> Result<Vec<u64>> {
	let cmp = Arc::new(InternalKeyComparator::new(Arc::new(BytewiseComparator::default())));
	let clock = Arc::new(MockLogicalClock::with_timestamp(now));
	let mut it = CompactionIterator::new(Vec::new(), cmp, bottom, versioning, retention, clock, s.to_vec());
	// feed the versions in a scrambled order: the function sorts them itself
	let mut order: Vec<usize> = (0..v.len()).collect();
	order.reverse();
	for i in order {
		let (seq, kind, ts) = v[i];
		it.accumulated_versions.push((InternalKey::new(b"k".to_vec(), seq, kind, ts), vec![seq as u8]));
	}
	it.process_accumulated_versions()?;
	Ok(it.output_versions.iter().map(|(k, _)| k.seq_num()).collect())
}

#[test]
fn retention_enum() {
	let kinds = [InternalKeyKind::Set, InternalKeyKind::Delete, InternalKeyKind::SoftDelete, InternalKeyKind::Replace];
	let seqs = [40u64, 30, 20, 10];
	let snaps_all = [5u64, 15, 25, 35, 45];
	let now = 1000u64;
	let mut cases = 0u64;
	let mut nontrivial = std::collections::HashSet::new();
	let mut failures: Vec<String> = Vec::new();
	for n in 1..=4usize {
		let combos = 8usize.pow(n as u32); // per version: kind (4) x timestamp (2)
		for c in 0..combos {
			let mut v = Vec::new();
			let mut x = c;
			for i in 0..n {
				let kind = kinds[x % 4];
				x /= 4;
				let ts = if x % 2 == 0 { now - 10 } else { now - 500 };
				x /= 2;
				v.push((seqs[4 - n + i], kind, ts));
			}
			for mask in 0..32u32 {
				let s: Vec<u64> = snaps_all.iter().enumerate().filter(|(i, _)| mask & (1 << i) != 0).map(|(_, &x)| x).collect();
				for &bottom in &[false, true] {
					for &versioning in &[false, true] {
						for &retention in &[0u64, 100] {
							if !versioning && retention != 0 {
								continue;
							}
							cases += 1;
							let want: Vec<u64> = (0..n).filter(|&j| keep_rule(&v, &s, bottom, versioning, retention, now, j)).map(|j| v[j].0).collect();
							let got = run_real(&v, &s, bottom, versioning, retention, now);
							let ok = matches!(&got, Ok(g) if *g == want);
							if want.len() != n && !want.is_empty() {
								nontrivial.insert((v.iter().map(|e| (e.0, e.1 as u8, e.2)).collect::<Vec<_>>(), s.clone(), bottom, versioning, retention));
							}
							if !ok && failures.len() < 5 {
								failures.push(format!(
									"{{\"versions(seq,kind,ts)\":\"{:?}\",\"snapshots\":{:?},\"bottom\":{},\"versioning\":{},\"retention\":{},\"now\":{},\"expected_kept_seqs\":{:?},\"real_output_seqs\":\"{:?}\"}}",
									v, s, bottom, versioning, retention, now, want, got.as_ref().map_err(|e| e.to_string())
								));
							}
						}
					}
				}
			}
		}
	}
	println!(
		"REPLAY-RESULT {{\"driver\":\"iter::retention_enum\",\"cases\":{},\"distinct_nontrivial\":{},\"failures\":[{}]}}",
		cases,
		nontrivial.len(),
		failures.join(",")
	);
	assert!(failures.is_empty(), "real process_accumulated_versions disagrees with keep_rule");
}

// Bounded check of the WHOLE version filter (accumulation loop + per-key decision): the real CompactionIterator::advance
// over a real memtable cursor holding key "a" (one version), key "k" (the enumerated versions) and key "z" (one version);
// the entries it emits must be exactly: a's version, the versions of k the keep_rule keeps (in order), z's version.
// Bound (stated): <= 3 versions of k, kinds {Set, Delete, SoftDelete, Replace}, sequence numbers from {20,30,40},
// timestamps {fresh, expired}, snapshot lists = all subsets of {5,15,25,35,45}, bottom/non-bottom, versioning on/off,
// retention {0, 100}.
#[test]
fn advance_enum() {
	use crate::batch::Batch;
	use crate::memtable::MemTable;
	let kinds = [InternalKeyKind::Set, InternalKeyKind::Delete, InternalKeyKind::SoftDelete, InternalKeyKind::Replace];
	let seqs = [40u64, 30, 20];
	let snaps_all = [5u64, 15, 25, 35, 45];
	let now = 1000u64;
	let mut cases = 0u64;
	let mut nontrivial = 0u64;
	let mut failures: Vec<String> = Vec::new();
	for n in 1..=3usize {
		let combos = 8usize.pow(n as u32);
		for c in 0..combos {
			let mut v = Vec::new();
			let mut x = c;
			for i in 0..n {
				let kind = kinds[x % 4];
				x /= 4;
				let ts = if x % 2 == 0 { now - 10 } else { now - 500 };
				x /= 2;
				v.push((seqs[3 - n + i], kind, ts));
			}
			// one memtable per version list (shared by all filter settings)
			let mt = MemTable::new(1 << 16);
			let put = |key: &[u8], seq: u64, kind: InternalKeyKind, ts: u64| {
				let mut b = Batch::new(seq);
				let val = if matches!(kind, InternalKeyKind::Set | InternalKeyKind::Replace) { Some(vec![seq as u8]) } else { None };
				b.add_record(kind, key.to_vec(), val, ts).unwrap();
				mt.add(&b).unwrap();
			};
			put(b"a", 1, InternalKeyKind::Set, now - 10);
			put(b"z", 2, InternalKeyKind::Set, now - 10);
			for &(seq, kind, ts) in v.iter().rev() {
				put(b"k", seq, kind, ts);
			}
			for mask in 0..32u32 {
				let s: Vec<u64> = snaps_all.iter().enumerate().filter(|(i, _)| mask & (1 << i) != 0).map(|(_, &x)| x).collect();
				for &bottom in &[false, true] {
					for &versioning in &[false, true] {
						for &retention in &[0u64, 100] {
							if !versioning && retention != 0 {
								continue;
							}
							cases += 1;
							let mut want: Vec<(Vec<u8>, u64)> = vec![(b"a".to_vec(), 1)];
							let kept: Vec<u64> = (0..n).filter(|&j| keep_rule(&v, &s, bottom, versioning, retention, now, j)).map(|j| v[j].0).collect();
							if kept.len() != n && !kept.is_empty() {
								nontrivial += 1;
							}
							want.extend(kept.iter().map(|&q| (b"k".to_vec(), q)));
							want.push((b"z".to_vec(), 2));
							let cmp = Arc::new(InternalKeyComparator::new(Arc::new(BytewiseComparator::default())));
							let clock = Arc::new(MockLogicalClock::with_timestamp(now));
							let mut it = CompactionIterator::new(vec![Box::new(mt.iter()) as BoxedLSMIterator<'_>], cmp, bottom, versioning, retention, clock, s.clone());
							let mut got: Vec<(Vec<u8>, u64)> = Vec::new();
							let mut err: Option<String> = None;
							loop {
								match it.advance() {
									Ok(Some((k, _))) => {
										got.push((k.user_key.to_vec(), k.seq_num()));
										if got.len() > 16 {
											err = Some("more than 16 entries".to_string());
											break;
										}
									}
									Ok(None) => break,
									Err(e) => {
										err = Some(e.to_string());
										break;
									}
								}
							}
							if (err.is_some() || got != want) && failures.len() < 5 {
								let show = |l: &Vec<(Vec<u8>, u64)>| l.iter().map(|e| format!("{}@{}", String::from_utf8_lossy(&e.0), e.1)).collect::<Vec<_>>().join(" ");
								failures.push(format!(
									"{{\"versions_of_k(seq,kind,ts)\":\"{:?}\",\"snapshots\":{:?},\"bottom\":{},\"versioning\":{},\"retention\":{},\"expected(key@seq)\":\"{}\",\"real_output\":\"{}\",\"error\":\"{}\"}}",
									v, s, bottom, versioning, retention, show(&want), show(&got), err.clone().unwrap_or_else(|| "none".to_string()).replace('"', "'")
								));
							}
						}
					}
				}
			}
		}
	}
	println!(
		"REPLAY-RESULT {{\"driver\":\"iter::advance_enum\",\"cases\":{},\"distinct_nontrivial\":{},\"failures\":[{}]}}",
		cases,
		nontrivial,
		failures.join(",")
	);
	assert!(failures.is_empty(), "real CompactionIterator::advance disagrees with keep_rule");
}
