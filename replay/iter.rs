// replay hooks for src/iter.rs (included as a child module `verif_replay` of that file)
