// replay hooks for src/sstable/bloom.rs (included as a child module `verif_replay` of that file)
