// replay hooks for src/levels/mod.rs (included as a child module `verif_replay` of that file)
