// Bounded-check driver for src/levels/mod.rs (child module `verif_replay`).
// C11: LevelManifest::min_oldest_vlog_file_id is the minimum over ALL live tables - including the
// inputs of an in-flight compaction (hidden_set) - of their oldest_vlog_file_id (> 0), 0 if none.
// Bound (stated): <= 3 tables spread over 2 levels, oldest ids from {0,1,2,3}, every hidden subset.
use super::*;
use crate::sstable::table::TableWriter;
use crate::vlog::{ValueLocation, ValuePointer};
use crate::{InternalKey, InternalKeyKind};

fn mk_table(id: u64, oldest: u32, opts: &Arc<Options>) -> Arc<Table> {
	let mut buf = Vec::new();
	{
		let mut w = TableWriter::new(&mut buf, id, Arc::clone(opts), 0);
		let key = InternalKey::new(format!("k{id:02}").into_bytes(), id, InternalKeyKind::Set, 0);
		let val = if oldest == 0 {
			ValueLocation::with_inline_value(vec![1, 2, 3]).encode()
		} else {
			ValueLocation::with_pointer(ValuePointer::new(oldest, 0, 3, 3, 1)).encode()
		};
		w.add(key, &val).unwrap();
		w.finish().unwrap();
	}
	let size = buf.len() as u64;
	let file: Arc<dyn File> = Arc::new(buf);
	Arc::new(Table::new(id, Arc::clone(opts), file, size).unwrap())
}

#[test]
fn min_oldest_vlog_enum() {
	let opts = Arc::new(Options::new());
	let mut cases = 0u64;
	let mut nontrivial = std::collections::HashSet::new();
	let mut failures: Vec<String> = Vec::new();
	for n in 0..=3usize {
		for c in 0..4usize.pow(n as u32) {
			let mut olds = Vec::new();
			let mut x = c;
			for _ in 0..n {
				olds.push((x % 4) as u32);
				x /= 4;
			}
			for split in 0..=n {
				for hidden_mask in 0..(1u32 << n) {
					cases += 1;
					let tables: Vec<Arc<Table>> = olds.iter().enumerate().map(|(i, &o)| mk_table(i as u64 + 1, o, &opts)).collect();
					let l0 = Level { tables: tables[..split].to_vec() };
					let l1 = Level { tables: tables[split..].to_vec() };
					let mut hidden = HashSet::new();
					for i in 0..n {
						if hidden_mask & (1 << i) != 0 {
							hidden.insert(i as u64 + 1);
						}
					}
					let m = LevelManifest {
						path: PathBuf::new(),
						levels: Levels(vec![Arc::new(l0), Arc::new(l1)]),
						hidden_set: hidden.clone(),
						next_table_id: Arc::new(AtomicU64::new(100)),
						manifest_format_version: MANIFEST_FORMAT_VERSION_V1,
						snapshots: Vec::new(),
						log_number: 0,
						last_sequence: 0,
					};
					let want = olds.iter().copied().filter(|&o| o > 0).min().unwrap_or(0);
					let got = m.min_oldest_vlog_file_id();
					if hidden_mask != 0 && olds.iter().filter(|&&o| o > 0).count() >= 2 {
						nontrivial.insert((olds.clone(), split, hidden_mask));
					}
					if got != want && failures.len() < 5 {
						failures.push(format!("{{\"tables_oldest_vlog_ids\":{:?},\"tables_on_level0\":{},\"hidden_table_ids\":{:?},\"expected_min\":{},\"real\":{}}}", olds, split, { let mut h: Vec<u64> = hidden.iter().copied().collect(); h.sort(); h }, want, got));
					}
				}
			}
		}
	}
	println!(
		"REPLAY-RESULT {{\"driver\":\"levels::min_oldest_vlog_enum\",\"cases\":{},\"distinct_nontrivial\":{},\"failures\":[{}]}}",
		cases,
		nontrivial.len(),
		failures.join(",")
	);
	assert!(failures.is_empty());
}

/// C07 bounded check (end to end, real Tree on disk): whatever level shape a small workload of sets,
/// hard deletes, flushes and compaction rounds produces, the store closes, REOPENS without error, reads
/// back exactly the committed state, accepts a new commit that wins over everything recovered, and
/// reopens again (also with a larger and with a smaller level_count).
/// Bound (stated): programs of <= `maxlen` operations from {set k0..k2, delete k0..k2, flush, compact},
/// level_count in {2, 3}; maxlen 3 in the quick tier, 4 in the thorough tier.
#[derive(Clone, Copy, Debug, PartialEq)]
enum ROp {
	Set(u8),
	Del(u8),
	Flush,
	Compact,
}

async fn reopen_enum_impl(maxlen: usize, name: &str) {
	use crate::compaction::leveled::Strategy;
	use crate::TreeBuilder;
	let mut alpha = Vec::new();
	for k in 0..3u8 {
		alpha.push(ROp::Set(k));
		alpha.push(ROp::Del(k));
	}
	alpha.push(ROp::Flush);
	alpha.push(ROp::Compact);
	let mut cases = 0u64;
	let mut nontrivial = 0u64;
	let mut failures: Vec<String> = Vec::new();
	let mut samples: Vec<String> = Vec::new();
	for level_count in [2u8, 3] {
		for len in 1..=maxlen {
			for code in 0..alpha.len().pow(len as u32) {
				let mut ops = Vec::new();
				let mut x = code;
				for _ in 0..len {
					ops.push(alpha[x % alpha.len()]);
					x /= alpha.len();
				}
				cases += 1;
				let dir = tempdir::TempDir::new("verif_c07").unwrap();
				let mut model: [Option<Vec<u8>>; 3] = [None, None, None];
				let mut bad: Option<String> = None;
				{
					let (tree, opts) = TreeBuilder::new().with_path(dir.path().to_path_buf()).with_level_count(level_count).build_with_options().unwrap();
					let mut o = (*opts).clone();
					o.level0_max_files = 1;
					let strat = Arc::new(Strategy::from_options(Arc::new(o)));
					for (i, op) in ops.iter().enumerate() {
						match *op {
							ROp::Set(k) => {
								let v = format!("v{i}").into_bytes();
								let mut t = tree.begin().unwrap();
								t.set(vec![b'k', b'0' + k], v.clone()).unwrap();
								t.commit().await.unwrap();
								model[k as usize] = Some(v);
							}
							ROp::Del(k) => {
								let mut t = tree.begin().unwrap();
								t.delete(vec![b'k', b'0' + k]).unwrap();
								t.commit().await.unwrap();
								model[k as usize] = None;
							}
							ROp::Flush => { let _ = tree.flush(); }
							ROp::Compact => { let _ = tree.compact(strat.clone()); }
						}
					}
					if let Err(e) = tree.close().await {
						bad = Some(format!("close failed: {e}"));
					}
				}
				let structural = ops.iter().filter(|o| matches!(o, ROp::Flush | ROp::Compact)).count();
				if structural >= 1 && ops.iter().any(|o| matches!(o, ROp::Del(_))) {
					nontrivial += 1;
					if samples.len() < 3 && len == maxlen && structural >= 2 {
						samples.push(format!("\"level_count={level_count} {:?}\"", ops));
					}
				}
				// reopen (same configuration), read back, commit again, reopen with another level_count
				for (round, lc) in [level_count, level_count, level_count + 1, level_count - 1].iter().enumerate() {
					if bad.is_some() {
						break;
					}
					match TreeBuilder::new().with_path(dir.path().to_path_buf()).with_level_count(*lc).build() {
						Err(e) => bad = Some(format!("reopen #{round} (level_count {lc}) failed: {e}")),
						Ok(tree) => {
							{
								let r = tree.begin().unwrap();
								for k in 0..3u8 {
									let got = r.get(vec![b'k', b'0' + k]).unwrap();
									if got != model[k as usize] && bad.is_none() {
										bad = Some(format!("after reopen #{round}: key k{k} reads {:?}, committed state is {:?}", got, model[k as usize]));
									}
								}
							}
							// a commit made after reopening must be ordered after everything recovered
							let v = format!("post{round}").into_bytes();
							let mut t = tree.begin().unwrap();
							t.set(vec![b'k', b'0'], v.clone()).unwrap();
							if let Err(e) = t.commit().await {
								bad = Some(format!("commit after reopen #{round} failed: {e}"));
							}
							model[0] = Some(v.clone());
							let r = tree.begin().unwrap();
							if r.get(vec![b'k', b'0']).unwrap() != Some(v) && bad.is_none() {
								bad = Some(format!("commit made after reopen #{round} is shadowed by recovered data"));
							}
							drop(r);
							if let Err(e) = tree.close().await {
								bad = Some(format!("close after reopen #{round} failed: {e}"));
							}
						}
					}
				}
				if let Some(b) = bad {
					if failures.len() < 5 {
						failures.push(format!("{{\"level_count\":{level_count},\"program\":\"{:?}\",\"mismatch\":{:?}}}", ops, b));
					}
				}
			}
		}
	}
	println!(
		"REPLAY-RESULT {{\"driver\":\"levels::{name}\",\"cases\":{cases},\"distinct_nontrivial\":{nontrivial},\"samples\":[{}],\"failures\":[{}]}}",
		samples.join(","),
		failures.join(",")
	);
	assert!(failures.is_empty());
}

#[tokio::test(flavor = "multi_thread", worker_threads = 2)]
async fn reopen_enum_quick() {
	reopen_enum_impl(3, "reopen_enum_quick").await;
}

#[tokio::test(flavor = "multi_thread", worker_threads = 2)]
async fn reopen_enum_thorough() {
	reopen_enum_impl(4, "reopen_enum_thorough").await;
}

// ------------------------------------------------------------------------------------------------
// C14 exploration (bounded, real Tree on disk; no function of checkpoint/restore is under a contract):
// a checkpoint taken between operations contains exactly the data committed before it; restoring it makes every
// read return that state and nothing written afterwards; the checkpoint directory opens as a database with the
// same content; after the restore new commits are visible, win over restored data, survive reopen, and reads never
// return data of the discarded timeline (also not after flush / compaction / reopen).
// Bound (stated): programs of <= `maxlen` operations from {set k0|k1, delete k0|k1, flush, compact, checkpoint,
// restore (last checkpoint), reopen}, at least one checkpoint and one restore, level_count 3, default options
// (vlog off) and with the value log on (threshold 16 bytes, long values).
#[derive(Clone, Copy, Debug, PartialEq)]
enum KOp {
	Set(u8),
	Del(u8),
	Flush,
	Compact,
	Checkpoint,
	Restore,
	Reopen,
	/// rotate the active memtable WITHOUT flushing it (crate-internal): an immutable memtable stays queued.
	/// Only in the fixed programs below, not in the enumerated alphabet.
	Rotate,
}

async fn checkpoint_enum_impl(maxlen: usize, name: &str) {
	use crate::compaction::leveled::Strategy;
	use crate::TreeBuilder;
	let mut alpha = Vec::new();
	for k in 0..2u8 {
		alpha.push(KOp::Set(k));
		alpha.push(KOp::Del(k));
	}
	alpha.extend_from_slice(&[KOp::Flush, KOp::Compact, KOp::Checkpoint, KOp::Restore, KOp::Reopen]);
	let mut cases = 0u64;
	let mut nontrivial = 0u64;
	let mut failures: Vec<String> = Vec::new();
	let mut samples: Vec<String> = Vec::new();
	for vlog in [false, true] {
		for len in 2..=maxlen {
			// FIXED PROGRAMS (run once per value-log setting, appended to the enumeration of length 2): checkpoints taken
			// while one or two immutable memtables are still queued and the active memtable holds data
			let fixed: Vec<Vec<KOp>> = if len == 2 {
				vec![
					vec![KOp::Set(0), KOp::Rotate, KOp::Set(1), KOp::Checkpoint, KOp::Set(0), KOp::Flush, KOp::Restore],
					vec![KOp::Set(1), KOp::Rotate, KOp::Del(0), KOp::Rotate, KOp::Set(1), KOp::Checkpoint, KOp::Del(1), KOp::Restore, KOp::Reopen],
					vec![KOp::Set(0), KOp::Rotate, KOp::Set(1), KOp::Rotate, KOp::Set(0), KOp::Checkpoint, KOp::Flush, KOp::Set(1), KOp::Restore],
					vec![KOp::Set(1), KOp::Rotate, KOp::Set(0), KOp::Rotate, KOp::Checkpoint, KOp::Set(0), KOp::Set(1), KOp::Compact, KOp::Restore, KOp::Reopen],
				]
			} else {
				Vec::new()
			};
			let enumerated = alpha.len().pow(len as u32);
			for code in 0..enumerated + fixed.len() {
				let mut ops = Vec::new();
				if code >= enumerated {
					ops = fixed[code - enumerated].clone();
				} else {
					let mut x = code;
					for _ in 0..len {
						ops.push(alpha[x % alpha.len()]);
						x /= alpha.len();
					}
				}
				// a restore needs an earlier checkpoint; keep programs with at least one checkpoint followed by a restore
				let first_cp = ops.iter().position(|o| *o == KOp::Checkpoint);
				let ok = match first_cp {
					Some(i) => ops[i + 1..].contains(&KOp::Restore) && !ops[..i].contains(&KOp::Restore),
					None => false,
				};
				if !ok {
					continue;
				}
				cases += 1;
				let dir = tempdir::TempDir::new("verif_c14").unwrap();
				let dbdir = dir.path().join("db");
				let build = |p: &std::path::Path| {
					// stall threshold 8: the fixed programs queue up to 3 immutable memtables through the crate-internal rotate,
					// which (unlike the commit path) does not wake the flush task - a commit would wait for ever at the default 2
					let mut b = TreeBuilder::new().with_path(p.to_path_buf()).with_level_count(3).with_memtable_stall_threshold(8);
					if vlog {
						b = b.with_enable_vlog(true).with_vlog_value_threshold(16);
					}
					b.build_with_options()
				};
				let (mut tree, opts) = build(&dbdir).unwrap();
				let mut o = (*opts).clone();
				o.level0_max_files = 1;
				let strat = Arc::new(Strategy::from_options(Arc::new(o)));
				let val = |i: usize| -> Vec<u8> { if vlog { format!("value-{i}-{}", "x".repeat(40)).into_bytes() } else { format!("v{i}").into_bytes() } };
				let mut model: [Option<Vec<u8>>; 2] = [Some(val(999)), None];
				{
					let mut t = tree.begin().unwrap();
					t.set(b"k0".to_vec(), val(999)).unwrap();
					t.commit().await.unwrap();
				}
				let mut cp: Option<(std::path::PathBuf, [Option<Vec<u8>>; 2])> = None;
				let mut ncp = 0;
				let mut bad: Option<String> = None;
				let check = |tree: &crate::Tree, model: &[Option<Vec<u8>>; 2], what: &str| -> Option<String> {
					let r = tree.begin().unwrap();
					for k in 0..2u8 {
						match r.get(vec![b'k', b'0' + k]) {
							Ok(got) => {
								if got != model[k as usize] {
									return Some(format!("{what}: key k{k} reads {:?}, expected {:?}", got.as_ref().map(|b| String::from_utf8_lossy(b).to_string()), model[k as usize].as_ref().map(|b| String::from_utf8_lossy(b).to_string())));
								}
							}
							Err(e) => return Some(format!("{what}: get k{k} failed: {e}")),
						}
					}
					None
				};
				for (i, op) in ops.iter().enumerate() {
					match *op {
						KOp::Set(k) => {
							let v = val(i);
							let mut t = tree.begin().unwrap();
							t.set(vec![b'k', b'0' + k], v.clone()).unwrap();
							if let Err(e) = t.commit().await {
								bad = Some(format!("op #{i} commit failed: {e}"));
							}
							model[k as usize] = Some(v);
						}
						KOp::Del(k) => {
							let mut t = tree.begin().unwrap();
							t.delete(vec![b'k', b'0' + k]).unwrap();
							if let Err(e) = t.commit().await {
								bad = Some(format!("op #{i} commit failed: {e}"));
							}
							model[k as usize] = None;
						}
						KOp::Flush => {
							let _ = tree.flush();
						}
						KOp::Rotate => {
							if let Err(e) = tree.core.inner.rotate_memtable() {
								bad = Some(format!("op #{i} rotate_memtable failed: {e}"));
							}
						}
						KOp::Compact => {
							let _ = tree.compact(strat.clone());
						}
						KOp::Checkpoint => {
							ncp += 1;
							let p = dir.path().join(format!("cp{ncp}"));
							match tree.create_checkpoint(&p) {
								Ok(_) => cp = Some((p, model.clone())),
								Err(e) => bad = Some(format!("op #{i} create_checkpoint failed: {e}")),
							}
						}
						KOp::Restore => {
							if let Some((p, m)) = cp.clone() {
								match tree.restore_from_checkpoint(&p) {
									Ok(_) => model = m,
									Err(e) => bad = Some(format!("op #{i} restore_from_checkpoint failed: {e}")),
								}
							}
						}
						KOp::Reopen => {
							if let Err(e) = tree.close().await {
								bad = Some(format!("op #{i} close failed: {e}"));
							} else {
								drop(tree);
								match build(&dbdir) {
									Ok((t, _)) => tree = t,
									Err(e) => {
										bad = Some(format!("op #{i} reopen failed: {e}"));
										// cannot continue without a tree
										let (t, _) = build(&dir.path().join("scratch")).unwrap();
										tree = t;
									}
								}
							}
						}
					}
					if bad.is_none() {
						bad = check(&tree, &model, &format!("after op #{i} {:?}", op));
					}
					if bad.is_some() {
						break;
					}
				}
				// the checkpoint directory itself opens as a database with the checkpointed content
				if bad.is_none() {
					if let Some((p, m)) = cp.clone() {
						match build(&p) {
							Err(e) => bad = Some(format!("the checkpoint directory does not open as a database: {e}")),
							Ok((t, _)) => {
								bad = check(&t, &m, "checkpoint directory opened as a database");
								let _ = t.close().await;
							}
						}
					}
				}
				// after the program: a new commit is visible, wins over restored data and survives flush + reopen
				if bad.is_none() {
					let v = val(777);
					let mut t = tree.begin().unwrap();
					t.set(b"k1".to_vec(), v.clone()).unwrap();
					if let Err(e) = t.commit().await {
						bad = Some(format!("commit after the program failed: {e}"));
					}
					model[1] = Some(v);
					if bad.is_none() {
						bad = check(&tree, &model, "after a commit following the program");
					}
					if bad.is_none() {
						let _ = tree.flush();
						let _ = tree.compact(strat.clone());
						bad = check(&tree, &model, "after flush + compaction following the program");
					}
					if bad.is_none() {
						let _ = tree.close().await;
						drop(tree);
						match build(&dbdir) {
							Ok((t, _)) => {
								bad = check(&t, &model, "after the final reopen");
								tree = t;
							}
							Err(e) => {
								bad = Some(format!("final reopen failed: {e}"));
								let (t, _) = build(&dir.path().join("scratch2")).unwrap();
								tree = t;
							}
						}
					}
				}
				let _ = tree.close().await;
				let restore_pos = ops.iter().position(|o| *o == KOp::Restore).unwrap_or(0);
				let wrote_between = first_cp.map_or(false, |c| ops[c + 1..restore_pos.max(c + 1)].iter().any(|o| matches!(o, KOp::Set(_) | KOp::Del(_))));
				if wrote_between {
					nontrivial += 1;
					if samples.len() < 3 && len == maxlen {
						samples.push(format!("\"vlog={vlog} {:?}\"", ops));
					}
				}
				if let Some(b) = bad {
					if failures.len() < 6 {
						failures.push(format!("{{\"vlog\":{vlog},\"program\":\"{:?}\",\"mismatch\":{:?}}}", ops, b));
					}
				}
			}
		}
	}
	println!(
		"REPLAY-RESULT {{\"driver\":\"levels::{name}\",\"cases\":{cases},\"distinct_nontrivial\":{nontrivial},\"samples\":[{}],\"failures\":[{}]}}",
		samples.join(","),
		failures.join(",")
	);
	assert!(failures.is_empty());
}

#[tokio::test(flavor = "multi_thread", worker_threads = 2)]
async fn checkpoint_enum_quick() {
	checkpoint_enum_impl(4, "checkpoint_enum_quick").await;
}

#[tokio::test(flavor = "multi_thread", worker_threads = 2)]
async fn checkpoint_enum_thorough() {
	checkpoint_enum_impl(5, "checkpoint_enum_thorough").await;
}
