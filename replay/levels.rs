// Bounded-check driver for src/levels/mod.rs (child module `verif_replay`).
// C11: LevelManifest::min_oldest_vlog_file_id is the minimum over ALL live tables - including the
// inputs of an in-flight compaction (hidden_set) - of their oldest_vlog_file_id (> 0), 0 if none.
// Bound (stated): <= 3 tables spread over 2 levels, oldest ids from {0,1,2,3}, every hidden subset.
use super::*;
use crate::sstable::table::TableWriter;
use crate::vlog::{ValueLocation, ValuePointer};
use crate::{InternalKey, InternalKeyKind};

fn mk_table(id: u64, oldest: u32, opts: &Arc<Options>) -> Arc<Table> {
	let mut buf = Vec::new();
	{
		let mut w = TableWriter::new(&mut buf, id, Arc::clone(opts), 0);
		let key = InternalKey::new(format!("k{id:02}").into_bytes(), id, InternalKeyKind::Set, 0);
		let val = if oldest == 0 {
			ValueLocation::with_inline_value(vec![1, 2, 3]).encode()
		} else {
			ValueLocation::with_pointer(ValuePointer::new(oldest, 0, 3, 3, 1)).encode()
		};
		w.add(key, &val).unwrap();
		w.finish().unwrap();
	}
	let size = buf.len() as u64;
	let file: Arc<dyn File> = Arc::new(buf);
	Arc::new(Table::new(id, Arc::clone(opts), file, size).unwrap())
}

#[test]
fn min_oldest_vlog_enum() {
	let opts = Arc::new(Options::new());
	let mut cases = 0u64;
	let mut nontrivial = std::collections::HashSet::new();
	let mut failures: Vec<String> = Vec::new();
	for n in 0..=3usize {
		for c in 0..4usize.pow(n as u32) {
			let mut olds = Vec::new();
			let mut x = c;
			for _ in 0..n {
				olds.push((x % 4) as u32);
				x /= 4;
			}
			for split in 0..=n {
				for hidden_mask in 0..(1u32 << n) {
					cases += 1;
					let tables: Vec<Arc<Table>> = olds.iter().enumerate().map(|(i, &o)| mk_table(i as u64 + 1, o, &opts)).collect();
					let l0 = Level { tables: tables[..split].to_vec() };
					let l1 = Level { tables: tables[split..].to_vec() };
					let mut hidden = HashSet::new();
					for i in 0..n {
						if hidden_mask & (1 << i) != 0 {
							hidden.insert(i as u64 + 1);
						}
					}
					let m = LevelManifest {
						path: PathBuf::new(),
						levels: Levels(vec![Arc::new(l0), Arc::new(l1)]),
						hidden_set: hidden.clone(),
						next_table_id: Arc::new(AtomicU64::new(100)),
						manifest_format_version: MANIFEST_FORMAT_VERSION_V1,
						snapshots: Vec::new(),
						log_number: 0,
						last_sequence: 0,
					};
					let want = olds.iter().copied().filter(|&o| o > 0).min().unwrap_or(0);
					let got = m.min_oldest_vlog_file_id();
					if hidden_mask != 0 && olds.iter().filter(|&&o| o > 0).count() >= 2 {
						nontrivial.insert((olds.clone(), split, hidden_mask));
					}
					if got != want && failures.len() < 5 {
						failures.push(format!("{{\"tables_oldest_vlog_ids\":{:?},\"tables_on_level0\":{},\"hidden_table_ids\":{:?},\"expected_min\":{},\"real\":{}}}", olds, split, { let mut h: Vec<u64> = hidden.iter().copied().collect(); h.sort(); h }, want, got));
					}
				}
			}
		}
	}
	println!(
		"REPLAY-RESULT {{\"driver\":\"levels::min_oldest_vlog_enum\",\"cases\":{},\"distinct_nontrivial\":{},\"failures\":[{}]}}",
		cases,
		nontrivial.len(),
		failures.join(",")
	);
	assert!(failures.is_empty());
}
