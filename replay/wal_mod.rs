// replay hooks for src/wal/mod.rs (included as a child module `verif_replay` of that file)
//
// C02 / C03 bounded check (end to end, real Tree on disk): acknowledged commits survive a process crash at
// every point between the operations of a small workload, across memtable rotation (ArenaFull), background
// flush + WAL clean-up, recovery that has to split an over-full WAL segment, recovery that has to repair a
// torn tail, and a SECOND crash after committing to the recovered store.
//
// crash model: PROCESS CRASH - the image is a byte copy of the database directory taken while the store is
// open and no commit is in flight (the copy is retried until the directory listing is identical before and
// after it, so the image is a state the directory really was in).  `Torn` additionally commits one
// unsynced record and chops the end of the newest WAL segment of the image (power loss that tears the last,
// never-synced record): that record is not required to survive, everything synced before it is.
//
// Bound (stated): programs of <= `maxlen` operations from {small commit, delete of the last small key,
// fill the active memtable to 3/4, one big value (forces ArenaFull after a fill), settle (wait for background
// flush + WAL clean-up), rotate the memtable, flush the oldest immutable memtable, crash+reopen, crash+reopen
// with a half-size memtable, torn-tail crash+reopen} plus 16 fixed longer programs;
// memtable 64 KiB / 32 KiB; after every program: crash, reopen, compare, commit, crash, reopen, compare.
use super::*;
use crate::{Durability, LSMIterator as _, Tree, TreeBuilder};
use std::collections::BTreeMap;
use std::path::{Path, PathBuf};

const MEM: usize = 64 * 1024;
const MEM_SMALL: usize = 32 * 1024;

#[derive(Clone, Copy, Debug, PartialEq)]
enum COp {
	Small,
	Del,
	Fill,
	Big,
	Settle,
	/// the rotation that LsmCommitEnv::apply performs on ArenaFull, without waking the flush task
	Rotate,
	/// one step of the background flush task: flush the OLDEST immutable memtable (+ its WAL clean-up)
	FlushOne,
	Crash,
	CrashSmall,
	Torn,
}

fn listing(p: &Path, out: &mut Vec<(PathBuf, u64, std::time::SystemTime)>) {
	let mut ents: Vec<_> = std::fs::read_dir(p).map(|r| r.filter_map(|e| e.ok()).collect()).unwrap_or_default();
	ents.sort_by_key(|e: &std::fs::DirEntry| e.file_name());
	for e in ents {
		let path = e.path();
		match e.metadata() {
			Ok(m) if m.is_dir() => listing(&path, out),
			Ok(m) => out.push((path, m.len(), m.modified().unwrap_or(std::time::UNIX_EPOCH))),
			Err(_) => {}
		}
	}
}

fn copy_dir_all(src: &Path, dst: &Path) -> std::io::Result<()> {
	std::fs::create_dir_all(dst)?;
	for entry in std::fs::read_dir(src)? {
		let entry = entry?;
		let target = dst.join(entry.file_name());
		if entry.file_type()?.is_dir() {
			copy_dir_all(&entry.path(), &target)?;
		} else {
			std::fs::copy(entry.path(), &target)?;
		}
	}
	Ok(())
}

/// a consistent image of `live`: retried until nothing in the directory changed while it was copied
async fn crash_image(live: &Path, dst: &Path) -> bool {
	for _ in 0..100 {
		let mut before = Vec::new();
		listing(live, &mut before);
		let _ = std::fs::remove_dir_all(dst);
		let copied = copy_dir_all(live, dst).is_ok();
		let mut after = Vec::new();
		listing(live, &mut after);
		if copied && before == after {
			return true;
		}
		tokio::time::sleep(std::time::Duration::from_millis(20)).await;
	}
	false
}

fn open(p: &Path, mem: usize) -> crate::Result<Tree> {
	TreeBuilder::new().with_path(p.to_path_buf()).with_max_memtable_size(mem).with_memtable_stall_threshold(8).with_flush_on_close(false).build()
}

async fn put(tree: &Tree, k: &[u8], v: Option<&[u8]>, sync: bool) -> crate::Result<()> {
	let mut t = tree.begin()?;
	if sync {
		t.set_durability(Durability::Immediate);
	}
	match v {
		Some(v) => t.set(k.to_vec(), v.to_vec())?,
		None => t.delete(k.to_vec())?,
	}
	t.commit().await
}

fn compare(tree: &Tree, model: &BTreeMap<Vec<u8>, Vec<u8>>, ignore_prefix: &[u8]) -> Option<String> {
	let tx = tree.begin().unwrap();
	for (k, v) in model {
		match tx.get(k.clone()) {
			Ok(Some(got)) if &got == v => {}
			Ok(Some(got)) => return Some(format!("key {} reads a value of {} bytes starting {:?}, acknowledged value has {} bytes starting {:?}", String::from_utf8_lossy(k), got.len(), &got[..got.len().min(4)], v.len(), &v[..v.len().min(4)])),
			Ok(None) => return Some(format!("acknowledged key {} is missing", String::from_utf8_lossy(k))),
			Err(e) => return Some(format!("get {} failed: {e}", String::from_utf8_lossy(k))),
		}
	}
	// nothing else may be there (deleted keys do not come back, no phantom keys)
	let mut it = tx.range(b"a".to_vec(), b"zz".to_vec()).unwrap();
	let mut ok = it.seek_first().unwrap();
	while ok {
		let k = it.key().user_key().to_vec();
		if !model.contains_key(&k) && !k.starts_with(ignore_prefix) {
			return Some(format!("key {} is present but was deleted or never acknowledged", String::from_utf8_lossy(&k)));
		}
		ok = it.next().unwrap();
	}
	None
}

async fn settle(tree: &Tree) {
	for _ in 0..200 {
		if tree.core.inner.immutable_count() == 0 {
			break;
		}
		tokio::time::sleep(std::time::Duration::from_millis(10)).await;
	}
	// asynchronous WAL clean-up follows the flush
	tokio::time::sleep(std::time::Duration::from_millis(60)).await;
}

fn tear_newest_wal(image: &Path) {
	let wal_dir = image.join("wal");
	let mut segs: Vec<_> = std::fs::read_dir(&wal_dir).map(|r| r.filter_map(|e| e.ok()).map(|e| e.path()).collect()).unwrap_or_default();
	segs.sort();
	if let Some(seg) = segs.last() {
		let len = std::fs::metadata(seg).map(|m| m.len()).unwrap_or(0);
		if len > 7 {
			let f = std::fs::OpenOptions::new().write(true).open(seg).unwrap();
			f.set_len(len - 5).unwrap();
		}
	}
}

/// runs one program (ending in: crash, compare, commit, crash, compare); Some(mismatch) if the store broke the property
async fn run_program(script: Vec<COp>, root: PathBuf) -> Option<String> {
	let small = vec![b's'; 200];
	let medium = vec![b'm'; 6000];
	let big = vec![b'B'; 20 * 1024];
	let trace = std::env::var("VERIF_TRACE").is_ok();
	let mut gen = 0usize;
	let mut live = root.join(format!("g{gen}"));
	let mut model: BTreeMap<Vec<u8>, Vec<u8>> = BTreeMap::new();
	let mut smalls: Vec<Vec<u8>> = Vec::new();
	let mut n = 0usize;
	let mut bad: Option<String> = None;
	let mut tree = match open(&live, MEM) {
		Ok(t) => t,
		Err(e) => return Some(format!("initial open failed: {e}")),
	};
	for (step, op) in script.iter().enumerate() {
		if trace {
			eprintln!("  step {step} {:?}", op);
		}
		if bad.is_some() {
			break;
		}
		match *op {
			COp::Small => {
				n += 1;
				let k = format!("k_small_{n:04}").into_bytes();
				match put(&tree, &k, Some(&small), true).await {
					Ok(()) => {
						model.insert(k.clone(), small.clone());
						smalls.push(k);
					}
					Err(e) => bad = Some(format!("step {step}: commit failed: {e}")),
				}
			}
			COp::Del => {
				if let Some(k) = smalls.pop() {
					match put(&tree, &k, None, true).await {
						Ok(()) => {
							model.remove(&k);
						}
						Err(e) => bad = Some(format!("step {step}: delete failed: {e}")),
					}
				}
			}
			COp::Fill => {
				let mut guard = 0;
				while tree.core.inner.active_memtable.read().unwrap().size() < MEM * 3 / 4 && guard < 64 {
					guard += 1;
					n += 1;
					let k = format!("k_fill_{n:04}").into_bytes();
					match put(&tree, &k, Some(&medium), true).await {
						Ok(()) => {
							model.insert(k, medium.clone());
						}
						Err(e) => {
							bad = Some(format!("step {step}: commit failed: {e}"));
							break;
						}
					}
				}
			}
			COp::Big => {
				n += 1;
				let k = format!("k_big_{n:04}").into_bytes();
				match put(&tree, &k, Some(&big), true).await {
					Ok(()) => {
						model.insert(k, big.clone());
					}
					Err(e) => bad = Some(format!("step {step}: commit failed: {e}")),
				}
			}
			COp::Settle => settle(&tree).await,
			COp::Rotate => {
				let _ = tree.core.inner.rotate_memtable();
			}
			COp::FlushOne => {
				use crate::lsm::CompactionOperations;
				if let Err(e) = tree.core.inner.compact_memtable() {
					bad = Some(format!("step {step}: flush of the oldest immutable memtable failed: {e}"));
				}
				// asynchronous WAL clean-up follows the flush
				tokio::time::sleep(std::time::Duration::from_millis(60)).await;
			}
			COp::Crash | COp::CrashSmall | COp::Torn => {
				if *op == COp::Torn {
					// one more record, never synced: it may be lost, nothing else may
					n += 1;
					let k = format!("torn_{n:04}").into_bytes();
					if let Err(e) = put(&tree, &k, Some(&small), false).await {
						bad = Some(format!("step {step}: commit failed: {e}"));
						continue;
					}
				}
				gen += 1;
				let image = root.join(format!("g{gen}"));
				if !crash_image(&live, &image).await {
					bad = Some(format!("step {step}: harness could not take a stable image"));
					continue;
				}
				if *op == COp::Torn {
					tear_newest_wal(&image);
				}
				let _ = tree.close().await;
				let _ = std::fs::remove_dir_all(&live);
				live = image;
				let mem = if *op == COp::CrashSmall { MEM_SMALL } else { MEM };
				match open(&live, mem) {
					Err(e) => {
						bad = Some(format!("step {step}: reopen of the crash image failed: {e}"));
						continue;
					}
					Ok(t) => tree = t,
				}
				if let Some(m) = compare(&tree, &model, b"torn_") {
					bad = Some(format!("step {step} (after {:?}): {m}", op));
				}
			}
		}
	}
	let _ = tree.close().await;
	bad
}

async fn crash_enum_impl(maxlen: usize, name: &str, part: usize, parts: usize) {
	let alpha = [COp::Small, COp::Del, COp::Fill, COp::Big, COp::Settle, COp::Rotate, COp::FlushOne, COp::Crash, COp::CrashSmall, COp::Torn];
	let mut cases = 0u64;
	let mut nontrivial = 0u64;
	let mut failures: Vec<String> = Vec::new();
	let mut hangs: Vec<String> = Vec::new();
	let mut samples: Vec<String> = Vec::new();
	let mut idx = 0usize;
	// every program of <= maxlen operations, plus a fixed list of longer ones around rotation
	let mut programs: Vec<Vec<COp>> = Vec::new();
	for len in 1..=maxlen {
		for code in 0..alpha.len().pow(len as u32) {
			let mut ops = Vec::new();
			let mut x = code;
			for _ in 0..len {
				ops.push(alpha[x % alpha.len()]);
				x /= alpha.len();
			}
			programs.push(ops);
		}
	}
	use COp::*;
	let extra: Vec<Vec<COp>> = vec![
		vec![Fill, Big, Settle],
		vec![Fill, Big, Settle, Small],
		vec![Fill, Big, Settle, Torn],
		vec![Fill, Big, Fill, Big],
		vec![Fill, Big, Fill, Big, Settle],
		vec![Fill, Big, Crash, Fill, Big, Settle],
		vec![Fill, CrashSmall, Fill, Big, Settle],
		vec![Small, Del, Fill, Big, Settle, Del],
		// several immutable memtables queued, flushed one at a time
		vec![Small, Rotate, Small, Rotate, FlushOne],
		vec![Small, Rotate, Small, Rotate, Small, FlushOne],
		vec![Small, Rotate, Small, Rotate, FlushOne, FlushOne, Small],
		vec![Fill, Rotate, Small, Rotate, Small, Rotate, FlushOne, Torn],
		vec![Small, Rotate, Del, Rotate, FlushOne],
		// the torn record is the ONLY record of the newest segment and every older segment is already cleaned up:
		// the repair removes that segment, and the writer must not fall back to a segment below the log number
		vec![Small, Rotate, FlushOne, Torn],
		vec![Small, Rotate, FlushOne, Torn, Small],
		vec![Fill, Big, Settle, Torn, Small, Torn],
	];
	for ops in programs.into_iter().chain(extra.into_iter()) {
		let len = ops.len();
		for final_mem in [MEM, MEM_SMALL] {
			idx += 1;
			if idx % parts != part {
				continue;
			}
			cases += 1;
			let mut script: Vec<COp> = ops.clone();
			// closing sequence: crash, compare, commit, crash, compare
			script.push(if final_mem == MEM { COp::Crash } else { COp::CrashSmall });
			script.push(COp::Small);
			script.push(if final_mem == MEM { COp::Crash } else { COp::CrashSmall });
			if std::env::var("VERIF_TRACE").is_ok() {
				eprintln!("PROGRAM {:?}", script);
			}
			let root = tempdir::TempDir::new("verif_c02").unwrap();
			// watchdog: a program that does not finish is reported as a hang (C17 territory), not as a lost commit
			let h = tokio::spawn(run_program(script.clone(), root.path().to_path_buf()));
			let bad = match tokio::time::timeout(std::time::Duration::from_secs(90), h).await {
				// a failure of the HARNESS (no stable copy of the directory could be taken) decides nothing
				Ok(Ok(Some(b))) if b.contains("harness could not") => {
					if hangs.len() < 5 {
						hangs.push(format!("\"{:?}: {}\"", script, b));
					}
					None
				}
				Ok(Ok(b)) => b,
				Ok(Err(e)) => Some(format!("the store panicked: {e}")),
				Err(_) => {
					if hangs.len() < 5 {
						hangs.push(format!("\"{:?}\"", script));
					}
					None
				}
			};
			let structural = ops.iter().filter(|o| matches!(o, COp::Fill | COp::Big | COp::Settle | COp::Rotate | COp::FlushOne)).count();
			if structural >= 2 {
				nontrivial += 1;
				if samples.len() < 3 && len >= maxlen {
					samples.push(format!("\"{:?} final_mem={final_mem}\"", ops));
				}
			}
			if let Some(b) = bad {
				if failures.len() < 5 {
					failures.push(format!("{{\"program\":\"{:?}\",\"final_reopen_memtable\":{final_mem},\"mismatch\":{:?}}}", script, b));
				}
			}
		}
	}
	println!(
		"REPLAY-RESULT {{\"driver\":\"wal::{name}\",\"cases\":{cases},\"distinct_nontrivial\":{nontrivial},\"samples\":[{}],\"hangs\":[{}],\"failures\":[{}]}}",
		samples.join(","),
		hangs.join(","),
		failures.join(",")
	);
	assert!(failures.is_empty());
}

#[tokio::test(flavor = "multi_thread", worker_threads = 2)]
async fn crash_enum_quick() {
	crash_enum_impl(2, "crash_enum_quick", 0, 1).await;
}

// the thorough tier is split into four drivers so that they run in parallel
#[tokio::test(flavor = "multi_thread", worker_threads = 2)]
async fn crash_enum_thorough_0() {
	crash_enum_impl(3, "crash_enum_thorough_0", 0, 4).await;
}
#[tokio::test(flavor = "multi_thread", worker_threads = 2)]
async fn crash_enum_thorough_1() {
	crash_enum_impl(3, "crash_enum_thorough_1", 1, 4).await;
}
#[tokio::test(flavor = "multi_thread", worker_threads = 2)]
async fn crash_enum_thorough_2() {
	crash_enum_impl(3, "crash_enum_thorough_2", 2, 4).await;
}
#[tokio::test(flavor = "multi_thread", worker_threads = 2)]
async fn crash_enum_thorough_3() {
	crash_enum_impl(3, "crash_enum_thorough_3", 3, 4).await;
}

// ------------------------------------------------------------------------------------------------
// C12 bounded check (real Wal manager, Writer, Reader and repair on real files): what is appended is read back
// byte-identical and in order (also across a close/reopen of the segment in the middle); a segment cut off at
// an offset, or with one byte damaged, reads as a PREFIX of the appended records that contains every record
// lying wholly before the damage and then ends with end-of-log or a corruption report; repair keeps exactly
// such a prefix, and a record appended after the repair is read back after it.
// Bound (stated): record-length sequences of <= `maxrec` records from {1, 100, B-H-1, B-H, B-H+1, B-2H-1, 2B+5}
// (B = 32768 block, H = 7 header), every session split; truncation / single-byte damage (xor 0x01 and 0xff) at
// every offset within 9 bytes of a record end or block boundary and at a stride of 4099 bytes.
fn read_all(path: &Path) -> (Vec<(Vec<u8>, u64)>, String) {
	use crate::wal::reader::Reader;
	let file = match std::fs::File::open(path) {
		Ok(f) => f,
		// a repair that keeps no record may remove the segment: an absent segment reads as an empty log
		Err(e) if e.kind() == std::io::ErrorKind::NotFound => return (Vec::new(), "eof".to_string()),
		Err(e) => return (Vec::new(), format!("error: {e}")),
	};
	let mut reader = Reader::new(file);
	let mut out = Vec::new();
	loop {
		match reader.read() {
			Ok((data, off)) => {
				out.push((data.to_vec(), off));
				if out.len() > 64 {
					return (out, "more than 64 records".to_string());
				}
			}
			Err(Error::Corruption(e)) => return (out, format!("corruption: {e}")),
			Err(Error::IO(e)) if e.kind() == std::io::ErrorKind::UnexpectedEof => return (out, "eof".to_string()),
			Err(e) => return (out, format!("error: {e}")),
		}
	}
}

fn log_enum_impl(maxrec: usize, stride: usize, name: &str) {
	use crate::wal::manager::Wal;
	use crate::wal::recovery::repair_corrupted_wal_segment;
	let b = BLOCK_SIZE;
	let h = HEADER_SIZE;
	let lens: Vec<usize> = vec![1, 100, b - h - 1, b - h, b - h + 1, b - 2 * h - 1, 2 * b + 5];
	// work items: (record lengths, number of records written in the first session (0 = one session), n)
	let mut items: Vec<(Vec<usize>, usize, usize)> = Vec::new();
	for n in 1..=maxrec {
		for code in 0..lens.len().pow(n as u32) {
			let mut seq = Vec::new();
			let mut x = code;
			for _ in 0..n {
				seq.push(lens[x % lens.len()]);
				x /= lens.len();
			}
			for split in 0..n {
				items.push((seq.clone(), split, n));
			}
		}
	}
	// the cases are independent (own directory each): spread them over worker threads
	let nthreads = 8usize;
	let items = std::sync::Arc::new(items);
	let mut handles = Vec::new();
	for tid in 0..nthreads {
		let items = items.clone();
		handles.push(std::thread::spawn(move || {
			let mut cases = 0u64;
			let mut nontrivial = 0u64;
			let mut failures: Vec<String> = Vec::new();
			let mut samples: Vec<String> = Vec::new();
			let mut checks = 0u64;
			for (idx, item) in items.iter().enumerate() {
				if idx % nthreads != tid {
					continue;
				}
				let (seq, split, n) = (item.0.clone(), item.1, item.2);
				cases += 1;
				let dir = tempdir::TempDir::new("verif_c12").unwrap();
				let recs: Vec<Vec<u8>> = seq.iter().enumerate().map(|(i, &l)| (0..l).map(|j| ((i * 31 + j * 7 + l) % 251) as u8).collect()).collect();
				let mut bad: Option<String> = None;
				{
					let mut wal = Wal::open(dir.path(), Options::default()).unwrap();
					for (i, r) in recs.iter().enumerate() {
						if split > 0 && i == split {
							wal.close().unwrap();
							drop(wal);
							wal = Wal::open(dir.path(), Options::default()).unwrap();
						}
						if let Err(e) = wal.append(r) {
							bad = Some(format!("append of record {i} failed: {e}"));
							break;
						}
					}
					let _ = wal.sync();
					let _ = wal.close();
				}
				let ids = list_segment_ids(dir.path(), Some("wal")).unwrap_or_default();
				let mut ends: Vec<u64> = Vec::new();
				if bad.is_none() && ids.len() != 1 {
					bad = Some(format!("the appends did not stay in one segment: segments {:?}", ids));
				}
				let seg_id = ids.first().copied().unwrap_or(0);
				let seg = dir.path().join(segment_name(seg_id, "wal"));
				if bad.is_none() {
					let (got, end) = read_all(&seg);
					if got.iter().map(|g| &g.0).collect::<Vec<_>>() != recs.iter().collect::<Vec<_>>() || end != "eof" {
						bad = Some(format!("read back {} records of lengths {:?} ending with '{end}', appended were lengths {:?}", got.len(), got.iter().map(|g| g.0.len()).collect::<Vec<_>>(), seq));
					}
					ends = got.iter().map(|g| g.1).collect();
				}
				if bad.is_none() {
					let bytes = std::fs::read(&seg).unwrap();
					let flen = bytes.len();
					if flen > b {
						nontrivial += 1;
					}
					// offsets to probe
					let mut offs: std::collections::BTreeSet<usize> = std::collections::BTreeSet::new();
					let mut marks: Vec<usize> = ends.iter().map(|&e| e as usize).collect();
					let mut blk = 0;
					while blk <= flen {
						marks.push(blk);
						blk += b;
					}
					for m in marks {
						for d in 0..=9usize {
							if m + d < flen {
								offs.insert(m + d);
							}
							if m >= d && m - d < flen {
								offs.insert(m - d);
							}
						}
					}
					let mut o = 0;
					while o < flen {
						offs.insert(o);
						o += stride;
					}
					let work = dir.path().join("work");
					for &off in &offs {
						for mode in 0..3u8 {
							// 0 = truncate at off, 1 = xor 0x01, 2 = xor 0xff
							checks += 1;
							let _ = std::fs::remove_dir_all(&work);
							std::fs::create_dir_all(&work).unwrap();
							let wseg = work.join(segment_name(seg_id, "wal"));
							let mut dmg = bytes.clone();
							if mode == 0 {
								dmg.truncate(off);
							} else {
								dmg[off] ^= if mode == 1 { 0x01 } else { 0xff };
							}
							std::fs::write(&wseg, &dmg).unwrap();
							// records wholly before the damage
							let must = ends.iter().filter(|&&e| (e as usize) <= off).count();
							let (got, end) = read_all(&wseg);
							let is_prefix = got.len() <= recs.len() && got.iter().zip(recs.iter()).all(|(g, r)| &g.0 == r);
							let what = if mode == 0 { format!("truncated at {off}") } else { format!("byte {off} xor {}", if mode == 1 { "0x01" } else { "0xff" }) };
							if !is_prefix {
								bad = Some(format!("{what}: reading yields {} records that are not a prefix of the appended ones (lengths {:?})", got.len(), got.iter().map(|g| g.0.len()).collect::<Vec<_>>()));
							} else if got.len() < must {
								bad = Some(format!("{what}: only {} records read, {} records lie wholly before the damage (record ends {:?}); reader ended with '{end}'", got.len(), must, ends));
							} else if !(end == "eof" || end.starts_with("corruption")) {
								bad = Some(format!("{what}: reader ended with '{end}'"));
							}
							if bad.is_some() {
								break;
							}
							// a clean end-of-log is taken at face value by the store: it appends behind it WITHOUT repair.
							// What was read before must still be read, followed by the new record.
							if end == "eof" && (mode == 0 || off % 5 == 0) {
								let extra = vec![0xcdu8; 77];
								let r1 = match Wal::open(&work, Options::default()) {
									Ok(mut wal) => {
										let r = wal.append(&extra);
										let _ = wal.sync();
										let _ = wal.close();
										r.is_ok()
									}
									Err(_) => false,
								};
								let mut all: Vec<Vec<u8>> = Vec::new();
								let mut last_end = String::new();
								for id in list_segment_ids(&work, Some("wal")).unwrap_or_default() {
									let (g, e3) = read_all(&work.join(segment_name(id, "wal")));
									last_end = e3;
									all.extend(g.into_iter().map(|x| x.0));
								}
								let mut want: Vec<Vec<u8>> = got.iter().map(|x| x.0.clone()).collect();
								want.push(extra);
								if !r1 || all != want || last_end != "eof" {
									bad = Some(format!("{what}: the log read cleanly ({} records, then end-of-log); after appending one more record it reads {} records ending with '{last_end}' (expected the same {} + the new one)", got.len(), all.len(), got.len()));
									break;
								}
								// restore the damaged copy for the repair check below
								let _ = std::fs::remove_dir_all(&work);
								std::fs::create_dir_all(&work).unwrap();
								std::fs::write(&wseg, &dmg).unwrap();
							}
							// repair keeps exactly such a prefix, and an append after it is read back
							if (off % 7 == 0 || mode == 0) && got.len() < recs.len() {
								let rep = repair_corrupted_wal_segment(&work, seg_id as usize);
								let (after, end2) = read_all(&wseg);
								let ok_prefix = after.len() <= recs.len() && after.iter().zip(recs.iter()).all(|(g, r)| &g.0 == r);
								if let Err(e) = rep {
									bad = Some(format!("{what}: repair failed: {e}"));
								} else if !ok_prefix || after.len() < must || end2 != "eof" {
									bad = Some(format!("{what}: after repair the segment reads {} records (prefix: {ok_prefix}, {must} lie wholly before the damage), ending with '{end2}'", after.len()));
								} else {
									let extra = vec![0xabu8; 333];
									let mut wal = Wal::open(&work, Options::default()).unwrap();
									let r1 = wal.append(&extra);
									let _ = wal.sync();
									let _ = wal.close();
									let mut all: Vec<Vec<u8>> = Vec::new();
									let mut ends_ok = true;
									for id in list_segment_ids(&work, Some("wal")).unwrap_or_default() {
										let (g, e3) = read_all(&work.join(segment_name(id, "wal")));
										ends_ok &= e3 == "eof";
										all.extend(g.into_iter().map(|x| x.0));
									}
									let mut want: Vec<Vec<u8>> = after.iter().map(|x| x.0.clone()).collect();
									want.push(extra);
									if r1.is_err() || !ends_ok || all != want {
										bad = Some(format!("{what}: after repair + one append the log reads {} records (expected the {} repaired ones + the new one), append result ok={}", all.len(), after.len(), r1.is_ok()));
									}
								}
								if bad.is_some() {
									break;
								}
							}
						}
						if bad.is_some() {
							break;
						}
					}
				}
				if let Some(bm) = bad {
					if failures.len() < 5 {
						failures.push(format!("{{\"record_lengths\":{:?},\"first_session_records\":{split},\"mismatch\":{:?}}}", seq, bm));
					}
				} else if samples.len() < 3 && n == maxrec && split > 0 {
					samples.push(format!("\"lengths {:?}, reopened after {split} record(s)\"", seq));
				}
			}
			(cases, nontrivial, checks, failures, samples)
		}));
	}
	let mut cases = 0u64;
	let mut nontrivial = 0u64;
	let mut failures: Vec<String> = Vec::new();
	let mut samples: Vec<String> = Vec::new();
	let mut checks = 0u64;
	for hd in handles {
		match hd.join() {
			Ok((c, nt, ch, f, sm)) => {
				cases += c;
				nontrivial += nt;
				checks += ch;
				failures.extend(f);
				samples.extend(sm);
			}
			Err(_) => failures.push("\"a worker thread of the driver panicked (message on stderr of the driver run)\"".to_string()),
		}
	}
	failures.truncate(5);
	samples.truncate(3);
	println!(
		"REPLAY-RESULT {{\"driver\":\"wal::{name}\",\"cases\":{cases},\"damage_checks\":{checks},\"distinct_nontrivial\":{nontrivial},\"samples\":[{}],\"failures\":[{}]}}",
		samples.join(","),
		failures.join(",")
	);
	assert!(failures.is_empty());
}

#[test]
fn log_enum_quick() {
	log_enum_impl(2, 4099, "log_enum_quick");
}

#[test]
fn log_enum_thorough() {
	log_enum_impl(3, 1021, "log_enum_thorough");
}

// ------------------------------------------------------------------------------------------------
// C12 bounded check of the REPLAY on top of the reader (src/wal/recovery.rs replay_wal): whatever the reader says
// about a cut-off segment, the replay says too - a corruption report is never swallowed (in absolute-consistency
// mode it must make the open fail, in the default mode it must trigger the repair), and a clean end-of-log replays
// exactly the batches the reader yields.
// Bound (stated): 1..3 commit batches (one key each, values of 1 / 40 / 300 bytes) in one segment, preceded by 0 or 1
// older complete segment; the newest segment truncated at EVERY byte offset.
#[test]
fn replay_torn_enum() {
	use crate::batch::Batch;
	use crate::wal::manager::Wal;
	use crate::wal::recovery::replay_wal;
	use crate::InternalKeyKind;
	let mut cases = 0u64;
	let mut nontrivial = 0u64;
	let mut failures: Vec<String> = Vec::new();
	let mut samples: Vec<String> = Vec::new();
	for older in 0..2usize {
		for n in 1..=3usize {
			for &vlen in &[1usize, 40, 300] {
				let dir = tempdir::TempDir::new("verif_c12r").unwrap();
				let mut seq = 1u64;
				let mk = |i: usize, seq: u64| -> Vec<u8> {
					let mut b = Batch::new(seq);
					b.add_record(InternalKeyKind::Set, format!("key{i}").into_bytes(), Some(vec![b'a' + i as u8; vlen]), 0).unwrap();
					b.encode().unwrap()
				};
				{
					let mut wal = Wal::open(dir.path(), Options::default()).unwrap();
					if older == 1 {
						wal.append(&mk(9, seq)).unwrap();
						seq += 1;
						wal.rotate().unwrap();
					}
					for i in 0..n {
						wal.append(&mk(i, seq)).unwrap();
						seq += 1;
					}
					let _ = wal.sync();
					let _ = wal.close();
				}
				let ids = list_segment_ids(dir.path(), Some("wal")).unwrap_or_default();
				let newest = *ids.last().unwrap();
				let seg = dir.path().join(segment_name(newest, "wal"));
				let bytes = std::fs::read(&seg).unwrap();
				for cut in 0..=bytes.len() {
					cases += 1;
					let work = dir.path().join("work");
					let _ = std::fs::remove_dir_all(&work);
					std::fs::create_dir_all(&work).unwrap();
					for &id in &ids {
						let src = dir.path().join(segment_name(id, "wal"));
						let dst = work.join(segment_name(id, "wal"));
						if id == newest {
							std::fs::write(&dst, &bytes[..cut]).unwrap();
						} else {
							std::fs::copy(&src, &dst).unwrap();
						}
					}
					let (got, end) = read_all(&work.join(segment_name(newest, "wal")));
					let replay = replay_wal(&work, 0, 1 << 20);
					let what = format!("{n} batch(es) with {vlen}-byte values, {older} older segment(s), newest segment cut at byte {cut} of {}", bytes.len());
					let mut bad: Option<String> = None;
					if end.starts_with("corruption") {
						nontrivial += 1;
						match &replay {
							Err(crate::error::Error::WalCorruption { .. }) => {}
							Err(e) => bad = Some(format!("the reader reports '{end}', the replay fails with another error: {e}")),
							Ok((_, mts)) => bad = Some(format!("the reader reports '{end}' after {} record(s), but the replay reports a clean log ({} memtable(s)): the damage is neither repaired nor does it fail the open in absolute-consistency mode", got.len(), mts.len())),
						}
					} else if end == "eof" {
						match &replay {
							Err(e) => bad = Some(format!("the reader reads {} record(s) and a clean end-of-log, the replay fails: {e}", got.len())),
							Ok((_, mts)) => {
								for i in 0..n {
									let present = mts.iter().any(|(m, _)| m.get(format!("key{i}").as_bytes(), None).is_some());
									if present != (i < got.len()) {
										bad = Some(format!("the reader reads {} record(s) and a clean end-of-log; after the replay key{i} is {}", got.len(), if present { "present" } else { "absent" }));
										break;
									}
								}
							}
						}
					} else {
						bad = Some(format!("the reader ended with '{end}'"));
					}
					if let Some(b) = bad {
						if failures.len() < 5 {
							failures.push(format!("{{\"case\":{:?},\"mismatch\":{:?}}}", what, b));
						}
					} else if samples.len() < 2 && end.starts_with("corruption") && cut < 7 {
						samples.push(format!("{:?}", what));
					}
				}
			}
		}
	}
	println!(
		"REPLAY-RESULT {{\"driver\":\"wal::replay_torn_enum\",\"cases\":{cases},\"distinct_nontrivial\":{nontrivial},\"samples\":[{}],\"failures\":[{}]}}",
		samples.join(","),
		failures.join(",")
	);
	assert!(failures.is_empty());
}
