// replay hooks for src/wal/mod.rs (included as a child module `verif_replay` of that file)
