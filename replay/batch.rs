// replay hooks for src/batch.rs (included as a child module `verif_replay` of that file)
