// Bounded-check driver for src/batch.rs (child module `verif_replay`).
// C03 (a WAL record is one whole transaction): Batch::decode(Batch::encode(b)) reproduces b - version,
// starting sequence number, every entry (kind, key, value with the documented Some([]) -> None collapse,
// timestamp) and every value pointer - and entry i carries sequence number start + i.
// Bound (stated): batches of <= 3 entries; kinds {Set, Delete, SoftDelete, Replace}; key lengths
// {1, 127, 128}; values {None, empty, 1 byte, 127, 128, 300 bytes} (crossing the 1/2-byte varint
// boundary); pointer present/absent; starting seq in {0, 1, 127, 128, 2^32, 2^56-2}; timestamps {0, 2^40}.
use super::*;

#[test]
fn roundtrip_enum() {
	let kinds = [InternalKeyKind::Set, InternalKeyKind::Delete, InternalKeyKind::SoftDelete, InternalKeyKind::Replace];
	let keylens = [1usize, 127, 128];
	let vals: [Option<usize>; 6] = [None, Some(0), Some(1), Some(127), Some(128), Some(300)];
	let seqs = [0u64, 1, 127, 128, 1 << 32, (1 << 56) - 2];
	let tss = [0u64, 1 << 40];
	// one entry shape = (kind, keylen, val, has_ptr, ts)
	let mut shapes = Vec::new();
	for &k in &kinds { for &kl in &keylens { for &v in &vals { for &p in &[false, true] { for &t in &tss { shapes.push((k, kl, v, p, t)); } } } } }
	let mut cases = 0u64;
	let mut nontrivial = 0u64;
	let mut failures: Vec<String> = Vec::new();
	let mut check = |entries: &[(InternalKeyKind, usize, Option<usize>, bool, u64)], seq: u64| {
		cases += 1;
		let mut b = Batch::new(seq);
		for (i, &(kind, kl, v, p, ts)) in entries.iter().enumerate() {
			let key = vec![b'a' + i as u8; kl];
			let value = v.map(|n| vec![0x5a ^ i as u8; n]);
			let ptr = if p { Some(ValuePointer::new(i as u32 + 1, 1000 * i as u64, kl as u32, 7, 0xdead_0000 + i as u32)) } else { None };
			b.add_record_internal(kind, key, value, ptr, ts).unwrap();
		}
		let enc = b.encode().unwrap();
		let d = Batch::decode(&enc);
		let mut bad: Option<String> = None;
		match d {
			Err(e) => bad = Some(format!("decode failed: {e}")),
			Ok(d) => {
				if d.version != b.version || d.starting_seq_num != b.starting_seq_num || d.entries.len() != b.entries.len() || d.valueptrs.len() != b.valueptrs.len() {
					bad = Some("header / counts differ".to_string());
				} else {
					for i in 0..b.entries.len() {
						let (x, y) = (&b.entries[i], &d.entries[i]);
						let xv = match &x.value { Some(v) if v.is_empty() => None, o => o.clone() };
						if x.kind != y.kind || x.key != y.key || xv != y.value || x.timestamp != y.timestamp || b.valueptrs[i] != d.valueptrs[i] {
							bad = Some(format!("entry {i} differs"));
						}
					}
					let with_seqs: Vec<u64> = d.entries_with_seq_nums().unwrap().map(|(_, _, s, _)| s).collect();
					let want: Vec<u64> = (0..b.entries.len() as u64).map(|i| seq + i).collect();
					if with_seqs != want || d.get_highest_seq_num() != seq + (b.entries.len().max(1) as u64 - 1) {
						bad = Some("sequence numbering differs".to_string());
					}
				}
			}
		}
		if entries.len() >= 2 { nontrivial += 1; }
		if let Some(m) = bad { if failures.len() < 5 { failures.push(format!("{{\"start_seq\":{seq},\"entries(kind,keylen,vallen,ptr,ts)\":\"{:?}\",\"mismatch\":{:?}}}", entries, m)); } }
	};
	for &seq in &seqs {
		check(&[], seq);
		for &a in &shapes { check(&[a], seq); }
	}
	// pairs and triples over a thinned shape set (every 5th / 17th shape) to keep the run short
	let thin: Vec<_> = shapes.iter().copied().step_by(5).collect();
	for &seq in &[1u64, 128] { for &a in &thin { for &b2 in &thin { check(&[a, b2], seq); } } }
	let thin3: Vec<_> = shapes.iter().copied().step_by(17).collect();
	for &a in &thin3 { for &b2 in &thin3 { for &c in &thin3 { check(&[a, b2, c], 127); } } }
	println!(
		"REPLAY-RESULT {{\"driver\":\"batch::roundtrip_enum\",\"cases\":{cases},\"distinct_nontrivial\":{nontrivial},\"failures\":[{}]}}",
		failures.join(",")
	);
	assert!(failures.is_empty());
}
