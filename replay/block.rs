// replay hooks for src/sstable/block.rs (included as a child module `verif_replay` of that file)
