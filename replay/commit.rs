// replay hooks for src/commit.rs (included as a child module `verif_replay` of that file)
//
// C15 exploration (bounded; needs the cfg-guarded fault hook `crate::verif_fault` in src/lib.rs + src/wal/mod.rs):
// one I/O failure is injected at the n-th WAL append / flush / fsync of a small workload (transient: that call
// only; persistent: that call and every later one).  Checked on the real Tree:
//   (1) a commit that returned an error left NO trace: none of its writes is read by a fresh reader - right after
//       the failure, at the end of the workload, and after a crash + reopen of the directory;
//   (2) the store keeps accepting transactions afterwards or refuses them with an error (never hangs, never panics);
//   (3) every commit acknowledged before or after the failure is read back at the end AND after a process-crash
//       image of the directory is reopened.
// Bound (stated): 4 commits with immediate durability (keys a, b, a, c - the third overwrites the first), fault
// at call 0..5 of each of the three WAL sites, transient and persistent (36 fault placements + the fault-free run).
// THIS DRIVER MUST RUN ALONE IN ITS TEST PROCESS (the fault switch is global).
use super::*;
use crate::{Durability, TreeBuilder};

fn copy_dir_all(src: &std::path::Path, dst: &std::path::Path) -> std::io::Result<()> {
	std::fs::create_dir_all(dst)?;
	for entry in std::fs::read_dir(src)? {
		let entry = entry?;
		let target = dst.join(entry.file_name());
		if entry.file_type()?.is_dir() {
			copy_dir_all(&entry.path(), &target)?;
		} else {
			std::fs::copy(entry.path(), &target)?;
		}
	}
	Ok(())
}

/// the fault switch is global to the process: drivers of this file never run at the same time
static SERIAL: std::sync::Mutex<()> = std::sync::Mutex::new(());

#[tokio::test(flavor = "multi_thread", worker_threads = 2)]
async fn fault_enum() {
	let _serial = SERIAL.lock().unwrap_or_else(|e| e.into_inner());
	let mut cases = 0u64;
	let mut nontrivial = 0u64;
	let mut failures: Vec<String> = Vec::new();
	let mut kf_reappears = 0u64;
	let mut harness_skips = 0u64;
	let mut kf_example = String::new();
	let mut samples: Vec<String> = Vec::new();
	let keys: [&[u8]; 4] = [b"a", b"b", b"a", b"c"];
	let mut placements: Vec<Option<(&'static str, u64, bool)>> = vec![None];
	for site in ["wal_append", "wal_flush", "wal_sync"] {
		for nth in 0..6u64 {
			for persistent in [false, true] {
				placements.push(Some((site, nth, persistent)));
			}
		}
	}
	for pl in placements {
		cases += 1;
		let dir = tempdir::TempDir::new("verif_c15").unwrap();
		let live = dir.path().join("live");
		let tree = TreeBuilder::new().with_path(live.clone()).with_flush_on_close(false).build().unwrap();
		if let Some((site, nth, persistent)) = pl {
			crate::verif_fault::arm(site, nth, persistent);
		}
		// model of acknowledged state; per key the set of values written by FAILED commits (must never be read)
		let mut model: std::collections::BTreeMap<Vec<u8>, Vec<u8>> = Default::default();
		let mut poisoned: Vec<(Vec<u8>, Vec<u8>)> = Vec::new();
		let mut bad: Option<String> = None;
		let mut results: Vec<String> = Vec::new();
		for (i, k) in keys.iter().enumerate() {
			let v = format!("v{i}").into_bytes();
			let fut = async {
				let mut t = tree.begin()?;
				t.set_durability(Durability::Immediate);
				t.set(k.to_vec(), v.clone())?;
				t.commit().await
			};
			let r = match tokio::time::timeout(std::time::Duration::from_secs(90), fut).await {
				Ok(r) => r,
				Err(_) => {
					bad = Some(format!("commit #{i} did not finish within 90 s after the injected fault (store hangs)"));
					break;
				}
			};
			match r {
				Ok(()) => {
					model.insert(k.to_vec(), v.clone());
					results.push("ok".into());
				}
				Err(e) => {
					poisoned.push((k.to_vec(), v.clone()));
					results.push(format!("err({})", e.to_string().chars().take(40).collect::<String>()));
				}
			}
			// (1) + (3) right away
			match tree.begin() {
				Ok(rd) => {
					for kk in [b"a".to_vec(), b"b".to_vec(), b"c".to_vec()] {
						match rd.get(kk.clone()) {
							Ok(got) => {
								if got.as_ref() != model.get(&kk) {
									let from_failed = poisoned.iter().any(|(pk, pv)| *pk == kk && Some(pv) == got.as_ref());
									bad = Some(format!("after commit #{i} ({}): key {} reads {:?}, acknowledged state has {:?}{}", results[i], String::from_utf8_lossy(&kk), got.as_ref().map(|b| String::from_utf8_lossy(b).to_string()), model.get(&kk).map(|b| String::from_utf8_lossy(b).to_string()), if from_failed { " (the value written by a commit that returned an error)" } else { "" }));
								}
							}
							Err(e) => bad = Some(format!("after commit #{i}: get failed: {e}")),
						}
					}
				}
				Err(e) => {
					// refusing new transactions after a failure is allowed (sticky error) - nothing more to read
					results.push(format!("begin refused: {e}"));
				}
			}
			if bad.is_some() {
				break;
			}
		}
		let hits = crate::verif_fault::disarm();
		if hits > 0 {
			nontrivial += 1;
		}
		// crash image (process crash: files as they are), reopen, compare
		let mut reappeared: Option<String> = None;
		if bad.is_none() {
			let image = dir.path().join("image");
			if copy_dir_all(&live, &image).is_err() {
				// harness problem: decides nothing for this placement
				harness_skips += 1;
			} else {
				match TreeBuilder::new().with_path(image).with_flush_on_close(false).build() {
					Err(e) => bad = Some(format!("reopen of the crash image failed: {e}")),
					Ok(t2) => {
						let rd = t2.begin().unwrap();
						for kk in [b"a".to_vec(), b"b".to_vec(), b"c".to_vec()] {
							let got = rd.get(kk.clone()).unwrap_or(None);
							if got.as_ref() != model.get(&kk) {
								let from_failed = poisoned.iter().any(|(pk, pv)| *pk == kk && Some(pv) == got.as_ref());
								let msg = format!("after crash + reopen: key {} reads {:?}, acknowledged state has {:?}{}", String::from_utf8_lossy(&kk), got.as_ref().map(|b| String::from_utf8_lossy(b).to_string()), model.get(&kk).map(|b| String::from_utf8_lossy(b).to_string()), if from_failed { " (the value written by a commit that returned an error)" } else { "" });
								if from_failed && pl.map_or(false, |p| p.0 == "wal_sync" || p.0 == "wal_flush") {
									reappeared = Some(msg);
								} else {
									bad = Some(msg);
								}
							}
						}
						drop(rd);
						let _ = t2.close().await;
					}
				}
			}
		}
		let _ = tree.close().await;
		if let Some(m) = reappeared {
			// candidate for a known finding (decided by check.py): the record of a commit whose flush / fsync failed
			// is already in the log file and is replayed by recovery
			kf_reappears += 1;
			if kf_example.is_empty() {
				kf_example = format!("{{\"fault\":\"{}\",\"commit_results\":\"{}\",\"mismatch\":{:?}}}", format!("{:?}", pl).replace('"', "'"), format!("{:?}", results).replace('"', "'"), m);
			}
		}
		if let Some(b) = bad {
			if failures.len() < 6 {
				failures.push(format!("{{\"fault(site, calls let through, persistent)\":\"{}\",\"commit_results\":\"{}\",\"mismatch\":{:?}}}", format!("{:?}", pl).replace('"', "'"), format!("{:?}", results).replace('"', "'"), b));
			}
		} else if samples.len() < 3 && hits > 0 {
			samples.push(format!("\"fault {}: commits {}\"", format!("{:?}", pl).replace('"', "'"), format!("{:?}", results).replace('"', "'")));
		}
	}
	println!(
		"REPLAY-RESULT {{\"driver\":\"commit::fault_enum\",\"cases\":{cases},\"distinct_nontrivial\":{nontrivial},\"harness_skips\":{harness_skips},\"samples\":[{}],\"kf_candidates\":{{\"F25\":{{\"count\":{kf_reappears},\"example\":{}}}}},\"failures\":[{}]}}",
		samples.join(","),
		if kf_example.is_empty() { "null".to_string() } else { kf_example.clone() },
		failures.join(",")
	);
	assert!(failures.is_empty());
}

// ------------------------------------------------------------------------------------------------
// C15 / C07 bounded check (no fault hook needed): commits whose batch is around or far above what one memtable
// can hold.  Whatever such a commit answers (success or an error), (1) a refused one leaves no trace, (2) the
// commits AFTER it are accepted, (3) the store closes and OPENS AGAIN, with and without flush on close, and holds
// exactly the acknowledged commits.  (Found F30: an oversized batch reached the WAL, poisoned the fresh memtable and
// made the store unopenable.)
// Bound (stated): memtable size 64 KiB; one transaction of 1 or 3 values of total size
// {1/2, 0.9, 1, 1.1, 2, 8} x memtable size, or of 200 / 1100 / 1150 / 1300 one-byte values (few bytes, many skiplist nodes; 1100 and 1150 need more than the memtable by
// a small margin only: a bound that charges less than a full-height node per entry lets it through),
// placed first / in the middle of 4 small commits; flush_on_close on / off.
#[tokio::test(flavor = "multi_thread", worker_threads = 2)]
async fn oversize_enum() {
	let _serial = SERIAL.lock().unwrap_or_else(|e| e.into_inner());
	let cap = 64 * 1024usize;
	let mut cases = 0u64;
	let mut nontrivial = 0u64;
	let mut failures: Vec<String> = Vec::new();
	let mut samples: Vec<String> = Vec::new();
	for &tenths in &[5usize, 9, 10, 11, 20, 80] {
		for &nvals in &[1usize, 3, 200, 1100, 1150, 1300] {
			if nvals >= 100 && tenths != 5 {
				continue; // the many-tiny-writes shapes do not depend on the byte total
			}
			for &pos in &[0usize, 2] {
				for &flush_on_close in &[true, false] {
					cases += 1;
					let total = cap * tenths / 10;
					let dir = tempdir::TempDir::new("verif_c15o").unwrap();
					let build = || TreeBuilder::new().with_path(dir.path().to_path_buf()).with_max_memtable_size(cap).with_flush_on_close(flush_on_close).build();
					let tree = match build() {
						Ok(t) => t,
						Err(e) => {
							failures.push(format!("\"open failed: {e}\""));
							continue;
						}
					};
					let mut model: std::collections::BTreeMap<Vec<u8>, usize> = Default::default();
					let mut refused_keys: Vec<Vec<u8>> = Vec::new();
					let mut bad: Option<String> = None;
					let mut big_result = String::new();
					for step in 0..5usize {
						let mut tx = tree.begin().unwrap();
						tx.set_durability(Durability::Immediate);
						let mut keys: Vec<(Vec<u8>, usize)> = Vec::new();
						if step == pos {
							for j in 0..nvals {
								if nvals >= 100 {
									// many tiny writes: the arena cost is the per-entry node, not the bytes
									keys.push((format!("t{j:04}").into_bytes(), 1));
								} else {
									keys.push((format!("big{j}").into_bytes(), total / nvals));
								}
							}
						} else {
							keys.push((format!("s{step}").into_bytes(), 10));
						}
						for (k, n) in &keys {
							tx.set(k.clone(), vec![b'x'; *n]).unwrap();
						}
						match tx.commit().await {
							Ok(()) => {
								for (k, n) in keys {
									model.insert(k, n);
								}
								if step == pos {
									big_result = "accepted".to_string();
								}
							}
							Err(e) => {
								if step == pos {
									big_result = format!("refused ({e})");
									refused_keys.extend(keys.into_iter().map(|x| x.0));
								} else {
									bad = Some(format!("small commit #{step} (after the large one at #{pos}) failed: {e}"));
									break;
								}
							}
						}
					}
					if big_result.starts_with("refused") {
						nontrivial += 1;
					}
					let check = |t: &crate::Tree, when: &str| -> Option<String> {
						let rd = t.begin().ok()?;
						for (k, n) in &model {
							match rd.get(k.clone()) {
								Ok(Some(v)) if v.len() == *n => {}
								other => return Some(format!("{when}: acknowledged key {} reads {:?}", String::from_utf8_lossy(k), other.map(|o| o.map(|v| v.len())).map_err(|e| e.to_string()))),
							}
						}
						for k in &refused_keys {
							if let Ok(Some(_)) = rd.get(k.clone()) {
								return Some(format!("{when}: key {} of the REFUSED commit is readable", String::from_utf8_lossy(k)));
							}
						}
						None
					};
					if bad.is_none() {
						bad = check(&tree, "before close");
					}
					if bad.is_none() {
						if let Err(e) = tree.close().await {
							bad = Some(format!("close failed: {e}"));
						}
					}
					drop(tree);
					if bad.is_none() {
						let mut r = build();
						let mut waited = 0;
						while r.is_err() && waited < 5000 && r.as_ref().err().map(|e| e.to_string().contains("locked")).unwrap_or(false) {
							tokio::time::sleep(std::time::Duration::from_millis(50)).await;
							waited += 50;
							r = build();
						}
						match r {
							Err(e) => bad = Some(format!("the store does not open again: {e}")),
							Ok(t2) => {
								bad = check(&t2, "after reopen");
								let _ = t2.close().await;
							}
						}
					}
					let desc = format!("\"large transaction: {nvals} value(s), {total} bytes in all ({}% of the memtable), as commit #{pos} of 5, flush_on_close={flush_on_close}: {big_result}\"", tenths * 10);
					if let Some(b) = bad {
						if failures.len() < 5 {
							failures.push(format!("{{\"case\":{desc},\"mismatch\":{:?}}}", b));
						}
					} else if samples.len() < 3 && big_result.starts_with("refused") {
						samples.push(desc);
					}
				}
			}
		}
	}
	println!(
		"REPLAY-RESULT {{\"driver\":\"commit::oversize_enum\",\"cases\":{cases},\"distinct_nontrivial\":{nontrivial},\"samples\":[{}],\"failures\":[{}]}}",
		samples.join(","),
		failures.join(",")
	);
	assert!(failures.is_empty());
}
