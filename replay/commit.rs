// replay hooks for src/commit.rs (included as a child module `verif_replay` of that file)
//
// C15 exploration (bounded; needs the cfg-guarded fault hook `crate::verif_fault` in src/lib.rs + src/wal/mod.rs):
// one I/O failure is injected at the n-th WAL append / flush / fsync of a small workload (transient: that call
// only; persistent: that call and every later one).  Checked on the real Tree:
//   (1) a commit that returned an error left NO trace: none of its writes is read by a fresh reader - right after
//       the failure, at the end of the workload, and after a crash + reopen of the directory;
//   (2) the store keeps accepting transactions afterwards or refuses them with an error (never hangs, never panics);
//   (3) every commit acknowledged before or after the failure is read back at the end AND after a process-crash
//       image of the directory is reopened.
// Bound (stated): 4 commits with immediate durability (keys a, b, a, c - the third overwrites the first), fault
// at call 0..5 of each of the three WAL sites, transient and persistent (36 fault placements + the fault-free run).
// THIS DRIVER MUST RUN ALONE IN ITS TEST PROCESS (the fault switch is global).
use super::*;
use crate::{Durability, TreeBuilder};

fn copy_dir_all(src: &std::path::Path, dst: &std::path::Path) -> std::io::Result<()> {
	std::fs::create_dir_all(dst)?;
	for entry in std::fs::read_dir(src)? {
		let entry = entry?;
		let target = dst.join(entry.file_name());
		if entry.file_type()?.is_dir() {
			copy_dir_all(&entry.path(), &target)?;
		} else {
			std::fs::copy(entry.path(), &target)?;
		}
	}
	Ok(())
}

#[tokio::test(flavor = "multi_thread", worker_threads = 2)]
async fn fault_enum() {
	let mut cases = 0u64;
	let mut nontrivial = 0u64;
	let mut failures: Vec<String> = Vec::new();
	let mut kf_reappears = 0u64;
	let mut harness_skips = 0u64;
	let mut kf_example = String::new();
	let mut samples: Vec<String> = Vec::new();
	let keys: [&[u8]; 4] = [b"a", b"b", b"a", b"c"];
	let mut placements: Vec<Option<(&'static str, u64, bool)>> = vec![None];
	for site in ["wal_append", "wal_flush", "wal_sync"] {
		for nth in 0..6u64 {
			for persistent in [false, true] {
				placements.push(Some((site, nth, persistent)));
			}
		}
	}
	for pl in placements {
		cases += 1;
		let dir = tempdir::TempDir::new("verif_c15").unwrap();
		let live = dir.path().join("live");
		let tree = TreeBuilder::new().with_path(live.clone()).with_flush_on_close(false).build().unwrap();
		if let Some((site, nth, persistent)) = pl {
			crate::verif_fault::arm(site, nth, persistent);
		}
		// model of acknowledged state; per key the set of values written by FAILED commits (must never be read)
		let mut model: std::collections::BTreeMap<Vec<u8>, Vec<u8>> = Default::default();
		let mut poisoned: Vec<(Vec<u8>, Vec<u8>)> = Vec::new();
		let mut bad: Option<String> = None;
		let mut results: Vec<String> = Vec::new();
		for (i, k) in keys.iter().enumerate() {
			let v = format!("v{i}").into_bytes();
			let fut = async {
				let mut t = tree.begin()?;
				t.set_durability(Durability::Immediate);
				t.set(k.to_vec(), v.clone())?;
				t.commit().await
			};
			let r = match tokio::time::timeout(std::time::Duration::from_secs(90), fut).await {
				Ok(r) => r,
				Err(_) => {
					bad = Some(format!("commit #{i} did not finish within 90 s after the injected fault (store hangs)"));
					break;
				}
			};
			match r {
				Ok(()) => {
					model.insert(k.to_vec(), v.clone());
					results.push("ok".into());
				}
				Err(e) => {
					poisoned.push((k.to_vec(), v.clone()));
					results.push(format!("err({})", e.to_string().chars().take(40).collect::<String>()));
				}
			}
			// (1) + (3) right away
			match tree.begin() {
				Ok(rd) => {
					for kk in [b"a".to_vec(), b"b".to_vec(), b"c".to_vec()] {
						match rd.get(kk.clone()) {
							Ok(got) => {
								if got.as_ref() != model.get(&kk) {
									let from_failed = poisoned.iter().any(|(pk, pv)| *pk == kk && Some(pv) == got.as_ref());
									bad = Some(format!("after commit #{i} ({}): key {} reads {:?}, acknowledged state has {:?}{}", results[i], String::from_utf8_lossy(&kk), got.as_ref().map(|b| String::from_utf8_lossy(b).to_string()), model.get(&kk).map(|b| String::from_utf8_lossy(b).to_string()), if from_failed { " (the value written by a commit that returned an error)" } else { "" }));
								}
							}
							Err(e) => bad = Some(format!("after commit #{i}: get failed: {e}")),
						}
					}
				}
				Err(e) => {
					// refusing new transactions after a failure is allowed (sticky error) - nothing more to read
					results.push(format!("begin refused: {e}"));
				}
			}
			if bad.is_some() {
				break;
			}
		}
		let hits = crate::verif_fault::disarm();
		if hits > 0 {
			nontrivial += 1;
		}
		// crash image (process crash: files as they are), reopen, compare
		let mut reappeared: Option<String> = None;
		if bad.is_none() {
			let image = dir.path().join("image");
			if copy_dir_all(&live, &image).is_err() {
				// harness problem: decides nothing for this placement
				harness_skips += 1;
			} else {
				match TreeBuilder::new().with_path(image).with_flush_on_close(false).build() {
					Err(e) => bad = Some(format!("reopen of the crash image failed: {e}")),
					Ok(t2) => {
						let rd = t2.begin().unwrap();
						for kk in [b"a".to_vec(), b"b".to_vec(), b"c".to_vec()] {
							let got = rd.get(kk.clone()).unwrap_or(None);
							if got.as_ref() != model.get(&kk) {
								let from_failed = poisoned.iter().any(|(pk, pv)| *pk == kk && Some(pv) == got.as_ref());
								let msg = format!("after crash + reopen: key {} reads {:?}, acknowledged state has {:?}{}", String::from_utf8_lossy(&kk), got.as_ref().map(|b| String::from_utf8_lossy(b).to_string()), model.get(&kk).map(|b| String::from_utf8_lossy(b).to_string()), if from_failed { " (the value written by a commit that returned an error)" } else { "" });
								if from_failed && pl.map_or(false, |p| p.0 == "wal_sync" || p.0 == "wal_flush") {
									reappeared = Some(msg);
								} else {
									bad = Some(msg);
								}
							}
						}
						drop(rd);
						let _ = t2.close().await;
					}
				}
			}
		}
		let _ = tree.close().await;
		if let Some(m) = reappeared {
			// candidate for a known finding (decided by check.py): the record of a commit whose flush / fsync failed
			// is already in the log file and is replayed by recovery
			kf_reappears += 1;
			if kf_example.is_empty() {
				kf_example = format!("{{\"fault\":\"{}\",\"commit_results\":\"{}\",\"mismatch\":{:?}}}", format!("{:?}", pl).replace('"', "'"), format!("{:?}", results).replace('"', "'"), m);
			}
		}
		if let Some(b) = bad {
			if failures.len() < 6 {
				failures.push(format!("{{\"fault(site, calls let through, persistent)\":\"{}\",\"commit_results\":\"{}\",\"mismatch\":{:?}}}", format!("{:?}", pl).replace('"', "'"), format!("{:?}", results).replace('"', "'"), b));
			}
		} else if samples.len() < 3 && hits > 0 {
			samples.push(format!("\"fault {}: commits {}\"", format!("{:?}", pl).replace('"', "'"), format!("{:?}", results).replace('"', "'")));
		}
	}
	println!(
		"REPLAY-RESULT {{\"driver\":\"commit::fault_enum\",\"cases\":{cases},\"distinct_nontrivial\":{nontrivial},\"harness_skips\":{harness_skips},\"samples\":[{}],\"kf_candidates\":{{\"F25\":{{\"count\":{kf_reappears},\"example\":{}}}}},\"failures\":[{}]}}",
		samples.join(","),
		if kf_example.is_empty() { "null".to_string() } else { kf_example.clone() },
		failures.join(",")
	);
	assert!(failures.is_empty());
}
