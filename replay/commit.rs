// replay hooks for src/commit.rs (included as a child module `verif_replay` of that file)
