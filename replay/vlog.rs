// replay hooks for src/vlog.rs (included as a child module `verif_replay` of that file)
