// replay hooks for src/oracle.rs (included as a child module `verif_replay` of that file)
