// Bounded-check driver for src/sstable/table.rs (child module `verif_replay`).
// C11: after any sequence of TableWriter::add, the table's oldest_vlog_file_id is the MINIMUM file id
// among the value pointers added (0 when there is none).
// Bound (stated): sequences of <= 4 entries, each an inline value or a pointer into vlog file 1..=3
// (all 4^1+4^2+4^3+4^4 = 340 sequences), keys ascending, default Options.
use super::*;
use crate::vlog::{ValueLocation, ValuePointer};
use crate::{InternalKeyKind, Options};

#[test]
fn min_vlog_file_id_enum() {
	let mut cases = 0u64;
	let mut nontrivial = std::collections::HashSet::new();
	let mut failures: Vec<String> = Vec::new();
	for n in 1..=4usize {
		for c in 0..4usize.pow(n as u32) {
			let mut ids = Vec::new();
			let mut x = c;
			for _ in 0..n {
				ids.push((x % 4) as u32); // 0 = inline value, 1..3 = pointer into that vlog file
				x /= 4;
			}
			cases += 1;
			let opts = Arc::new(Options::new());
			let mut buf = Vec::new();
			let field_after_adds;
			{
				let mut w = TableWriter::new(&mut buf, 7, Arc::clone(&opts), 0);
				for (i, &id) in ids.iter().enumerate() {
					let key = InternalKey::new(format!("key{i:02}").into_bytes(), (i + 1) as u64, InternalKeyKind::Set, 0);
					let val = if id == 0 {
						ValueLocation::with_inline_value(vec![i as u8; 3]).encode()
					} else {
						ValueLocation::with_pointer(ValuePointer::new(id, 64 * i as u64, 5, 3, 0xabcd)).encode()
					};
					w.add(key, &val).unwrap();
				}
				field_after_adds = w.min_vlog_file_id;
				w.finish().unwrap();
			}
			let size = buf.len() as u64;
			let file: Arc<dyn File> = Arc::new(buf);
			let t = Table::new(7, opts, file, size).unwrap();
			let want = ids.iter().copied().filter(|&i| i > 0).min();
			let got = t.meta.properties.oldest_vlog_file_id;
			if ids.iter().filter(|&&i| i > 0).count() >= 2 {
				nontrivial.insert(ids.clone());
			}
			if (field_after_adds != want || got != want.unwrap_or(0) as u64) && failures.len() < 5 {
				failures.push(format!(
					"{{\"pointer_file_ids_in_add_order(0=inline)\":{:?},\"expected_oldest\":{},\"writer_field\":\"{:?}\",\"table_oldest_vlog_file_id\":{}}}",
					ids,
					want.unwrap_or(0),
					field_after_adds,
					got
				));
			}
		}
	}
	println!(
		"REPLAY-RESULT {{\"driver\":\"sstable::table::min_vlog_file_id_enum\",\"cases\":{},\"distinct_nontrivial\":{},\"failures\":[{}]}}",
		cases,
		nontrivial.len(),
		failures.join(",")
	);
	assert!(failures.is_empty());
}

/// C16 bounded check: every single-byte alteration (two patterns: ^0xff and ^0x01) at every offset of a
/// small table file (excluding the last `skip_tail` bytes when given) must be DETECTED (open / get / scan
/// returns an error) or HARMLESS (every answer identical to the pristine table); never different data,
/// never a panic.  Bound (stated): one table of 40 keys x 2 versions, block size 256, default filter.
fn damage_sweep_impl(from_tail: usize, skip_tail: usize, name: &str) {
	let mut opts = Options::new();
	opts.block_size = 256;
	let opts = Arc::new(opts);
	let mut buf = Vec::new();
	let mut keys = Vec::new();
	{
		let mut w = TableWriter::new(&mut buf, 9, Arc::clone(&opts), 0);
		for i in 0..40u64 {
			for seq in [20u64, 10] {
				let k = InternalKey::new(format!("key{i:03}").into_bytes(), seq + i * 100, InternalKeyKind::Set, 0);
				w.add(k.clone(), format!("value-{i}-{seq}").as_bytes()).unwrap();
				keys.push(k);
			}
		}
		w.finish().unwrap();
	}
	let tmp = tempdir::TempDir::new("verif_c16").unwrap();
	let answers = |data: Vec<u8>| -> std::result::Result<Vec<Option<(Vec<u8>, Vec<u8>)>>, String> {
		let size = data.len() as u64;
		// a real file (SysFile), as in production: reads past the end of the file return short counts
		let path = tmp.path().join("t.sst");
		std::fs::write(&path, &data).unwrap();
		let file: Arc<dyn File> = Arc::new(std::fs::File::open(&path).unwrap());
		// fresh Options (and therefore a fresh block cache) for every reading, so nothing read from the
		// pristine copy can be served for the damaged one
		let mut o = Options::new();
		o.block_size = 256;
		let t = Table::new(9, Arc::new(o), file, size).map_err(|e| e.to_string())?;
		let mut out = Vec::new();
		for k in &keys {
			let probe = InternalKey::new(k.user_key.clone(), k.seq_num(), InternalKeyKind::Set, 0);
			let r = t.get(&probe).map_err(|e| e.to_string())?;
			out.push(r.map(|(ik, v)| (ik.encode(), v)));
		}
		Ok(out)
	};
	let pristine = answers(buf.clone()).unwrap();
	assert!(pristine.iter().all(|a| a.is_some()));
	let mut cases = 0u64;
	let mut detected = 0u64;
	let mut failures: Vec<String> = Vec::new();
	let lo = if from_tail > 0 { buf.len().saturating_sub(from_tail) } else { 0 };
	let hi = buf.len() - skip_tail;
	for off in lo..hi {
		for pat in [0xffu8, 0x01] {
			cases += 1;
			let mut d = buf.clone();
			d[off] ^= pat;
			let r = std::panic::catch_unwind(std::panic::AssertUnwindSafe(|| answers(d)));
			match r {
				Err(_) => {
					if failures.len() < 5 {
						failures.push(format!("{{\"offset\":{off},\"xor\":{pat},\"file_len\":{},\"outcome\":\"PANIC\"}}", buf.len()));
					}
				}
				Ok(Err(_)) => detected += 1,
				Ok(Ok(a)) => {
					if a != pristine && failures.len() < 5 {
						let nbad = a.iter().zip(pristine.iter()).filter(|(x, y)| x != y).count();
						let missing = a.iter().filter(|x| x.is_none()).count();
						failures.push(format!("{{\"offset\":{off},\"xor\":{pat},\"file_len\":{},\"outcome\":\"different data served without error: {nbad} of {} lookups differ ({missing} report the key as absent)\"}}", buf.len(), a.len()));
					}
				}
			}
		}
	}
	println!(
		"REPLAY-RESULT {{\"driver\":\"sstable::table::{name}\",\"cases\":{cases},\"distinct_nontrivial\":{detected},\"failures\":[{}]}}",
		failures.join(",")
	);
	assert!(failures.is_empty());
}

#[test]
fn damage_sweep_body() {
	// everything except the 50-byte footer (block handles in the footer are not covered by any checksum)
	damage_sweep_impl(0, 50, "damage_sweep_body");
}

#[test]
fn damage_sweep_footer() {
	// the last 50 bytes: footer (format, checksum type, two varint block handles, padding, magic)
	damage_sweep_impl(50, 0, "damage_sweep_footer");
}
