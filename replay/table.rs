// Bounded-check driver for src/sstable/table.rs (child module `verif_replay`).
// C11: after any sequence of TableWriter::add, the table's oldest_vlog_file_id is the MINIMUM file id
// among the value pointers added (0 when there is none).
// Bound (stated): sequences of <= 4 entries, each an inline value or a pointer into vlog file 1..=3
// (all 4^1+4^2+4^3+4^4 = 340 sequences), keys ascending, default Options.
use super::*;
use crate::vlog::{ValueLocation, ValuePointer};
use crate::{InternalKeyKind, Options};

#[test]
fn min_vlog_file_id_enum() {
	let mut cases = 0u64;
	let mut nontrivial = std::collections::HashSet::new();
	let mut failures: Vec<String> = Vec::new();
	for n in 1..=4usize {
		for c in 0..4usize.pow(n as u32) {
			let mut ids = Vec::new();
			let mut x = c;
			for _ in 0..n {
				ids.push((x % 4) as u32); // 0 = inline value, 1..3 = pointer into that vlog file
				x /= 4;
			}
			cases += 1;
			let opts = Arc::new(Options::new());
			let mut buf = Vec::new();
			let field_after_adds;
			{
				let mut w = TableWriter::new(&mut buf, 7, Arc::clone(&opts), 0);
				for (i, &id) in ids.iter().enumerate() {
					let key = InternalKey::new(format!("key{i:02}").into_bytes(), (i + 1) as u64, InternalKeyKind::Set, 0);
					let val = if id == 0 {
						ValueLocation::with_inline_value(vec![i as u8; 3]).encode()
					} else {
						ValueLocation::with_pointer(ValuePointer::new(id, 64 * i as u64, 5, 3, 0xabcd)).encode()
					};
					w.add(key, &val).unwrap();
				}
				field_after_adds = w.min_vlog_file_id;
				w.finish().unwrap();
			}
			let size = buf.len() as u64;
			let file: Arc<dyn File> = Arc::new(buf);
			let t = Table::new(7, opts, file, size).unwrap();
			let want = ids.iter().copied().filter(|&i| i > 0).min();
			let got = t.meta.properties.oldest_vlog_file_id;
			if ids.iter().filter(|&&i| i > 0).count() >= 2 {
				nontrivial.insert(ids.clone());
			}
			if (field_after_adds != want || got != want.unwrap_or(0) as u64) && failures.len() < 5 {
				failures.push(format!(
					"{{\"pointer_file_ids_in_add_order(0=inline)\":{:?},\"expected_oldest\":{},\"writer_field\":\"{:?}\",\"table_oldest_vlog_file_id\":{}}}",
					ids,
					want.unwrap_or(0),
					field_after_adds,
					got
				));
			}
		}
	}
	println!(
		"REPLAY-RESULT {{\"driver\":\"sstable::table::min_vlog_file_id_enum\",\"cases\":{},\"distinct_nontrivial\":{},\"failures\":[{}]}}",
		cases,
		nontrivial.len(),
		failures.join(",")
	);
	assert!(failures.is_empty());
}
