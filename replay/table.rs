// replay hooks for src/sstable/table.rs (included as a child module `verif_replay` of that file)
