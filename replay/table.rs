// Bounded-check driver for src/sstable/table.rs (child module `verif_replay`).
// C11: after any sequence of TableWriter::add, the table's oldest_vlog_file_id is the MINIMUM file id
// among the value pointers added (0 when there is none).
// Bound (stated): sequences of <= 4 entries, each an inline value or a pointer into vlog file 1..=3
// (all 4^1+4^2+4^3+4^4 = 340 sequences), keys ascending, default Options.
use super::*;
use crate::vlog::{ValueLocation, ValuePointer};
use crate::{InternalKeyKind, Options};

#[test]
fn min_vlog_file_id_enum() {
	let mut cases = 0u64;
	let mut nontrivial = std::collections::HashSet::new();
	let mut failures: Vec<String> = Vec::new();
	// every entry is written as a Set in one pass and as a Replace in the other (both kinds carry values that
	// flush separates into the value log)
	for pass_kind in [InternalKeyKind::Set, InternalKeyKind::Replace] {
	for n in 1..=4usize {
		for c in 0..4usize.pow(n as u32) {
			let mut ids = Vec::new();
			let mut x = c;
			for _ in 0..n {
				ids.push((x % 4) as u32); // 0 = inline value, 1..3 = pointer into that vlog file
				x /= 4;
			}
			cases += 1;
			let opts = Arc::new(Options::new());
			let mut buf = Vec::new();
			let field_after_adds;
			{
				let mut w = TableWriter::new(&mut buf, 7, Arc::clone(&opts), 0);
				for (i, &id) in ids.iter().enumerate() {
					// alternate the kinds inside a table in the Replace pass
					let kind = if pass_kind == InternalKeyKind::Replace && i % 2 == 0 { InternalKeyKind::Replace } else { InternalKeyKind::Set };
					let key = InternalKey::new(format!("key{i:02}").into_bytes(), (i + 1) as u64, kind, 0);
					let val = if id == 0 {
						ValueLocation::with_inline_value(vec![i as u8; 3]).encode()
					} else {
						ValueLocation::with_pointer(ValuePointer::new(id, 64 * i as u64, 5, 3, 0xabcd)).encode()
					};
					w.add(key, &val).unwrap();
				}
				field_after_adds = w.min_vlog_file_id;
				w.finish().unwrap();
			}
			let size = buf.len() as u64;
			let file: Arc<dyn File> = Arc::new(buf);
			let t = Table::new(7, opts, file, size).unwrap();
			let want = ids.iter().copied().filter(|&i| i > 0).min();
			let got = t.meta.properties.oldest_vlog_file_id;
			if ids.iter().filter(|&&i| i > 0).count() >= 2 {
				nontrivial.insert(ids.clone());
			}
			if (field_after_adds != want || got != want.unwrap_or(0) as u64) && failures.len() < 5 {
				failures.push(format!(
					"{{\"pointer_file_ids_in_add_order(0=inline)\":{:?},\"expected_oldest\":{},\"writer_field\":\"{:?}\",\"table_oldest_vlog_file_id\":{}}}",
					ids,
					want.unwrap_or(0),
					field_after_adds,
					got
				));
			}
		}
	}
	}
	println!(
		"REPLAY-RESULT {{\"driver\":\"sstable::table::min_vlog_file_id_enum\",\"cases\":{},\"distinct_nontrivial\":{},\"failures\":[{}]}}",
		cases,
		nontrivial.len(),
		failures.join(",")
	);
	assert!(failures.is_empty());
}

/// C16 bounded check: every single-byte alteration (two patterns: ^0xff and ^0x01) at every offset of a
/// small table file (excluding the last `skip_tail` bytes when given) must be DETECTED (open / get / scan
/// returns an error) or HARMLESS (every answer identical to the pristine table); never different data,
/// never a panic.  Bound (stated): one table of 40 keys x 2 versions, block size 256, default filter.
fn damage_sweep_impl(from_tail: usize, skip_tail: usize, name: &str) {
	let mut opts = Options::new();
	opts.block_size = 256;
	let opts = Arc::new(opts);
	let mut buf = Vec::new();
	let mut keys = Vec::new();
	{
		let mut w = TableWriter::new(&mut buf, 9, Arc::clone(&opts), 0);
		for i in 0..40u64 {
			for seq in [20u64, 10] {
				let k = InternalKey::new(format!("key{i:03}").into_bytes(), seq + i * 100, InternalKeyKind::Set, 0);
				w.add(k.clone(), format!("value-{i}-{seq}").as_bytes()).unwrap();
				keys.push(k);
			}
		}
		w.finish().unwrap();
	}
	let tmp = tempdir::TempDir::new("verif_c16").unwrap();
	// three readings, judged SEPARATELY (a reading that fails is a detection; one that succeeds must equal the
	// pristine table): all point lookups, the complete forward scan, the complete backward scan
	type Reading = std::result::Result<Vec<Option<(Vec<u8>, Vec<u8>)>>, String>;
	let answers = |data: Vec<u8>| -> std::result::Result<Vec<Reading>, String> {
		let size = data.len() as u64;
		// a real file (SysFile), as in production: reads past the end of the file return short counts
		let path = tmp.path().join("t.sst");
		std::fs::write(&path, &data).unwrap();
		let file: Arc<dyn File> = Arc::new(std::fs::File::open(&path).unwrap());
		// fresh Options (and therefore a fresh block cache) for every reading, so nothing read from the
		// pristine copy can be served for the damaged one
		let mut o = Options::new();
		o.block_size = 256;
		let t = Table::new(9, Arc::new(o), file, size).map_err(|e| e.to_string())?;
		let gets = || -> Reading {
			let mut out = Vec::new();
			for k in &keys {
				let probe = InternalKey::new(k.user_key.clone(), k.seq_num(), InternalKeyKind::Set, 0);
				let r = t.get(&probe).map_err(|e| e.to_string())?;
				out.push(r.map(|(ik, v)| (ik.encode(), v)));
			}
			Ok(out)
		};
		let scan = |backward: bool| -> Reading {
			use crate::LSMIterator as _;
			let mut out = Vec::new();
			let mut it = t.iter(None).map_err(|e| e.to_string())?;
			let mut ok = if backward { it.seek_last() } else { it.seek_first() }.map_err(|e| e.to_string())?;
			while ok && out.len() <= keys.len() + 2 {
				out.push(Some((it.key().encoded().to_vec(), it.value_encoded().map_err(|e| e.to_string())?.to_vec())));
				ok = if backward { it.prev() } else { it.next() }.map_err(|e| e.to_string())?;
			}
			Ok(out)
		};
		Ok(vec![gets(), scan(false), scan(true)])
	};
	let pristine: Vec<Vec<Option<(Vec<u8>, Vec<u8>)>>> = answers(buf.clone()).unwrap().into_iter().map(|r| r.unwrap()).collect();
	assert!(pristine[0].iter().all(|a| a.is_some()) && pristine[1].len() == keys.len() && pristine[2].len() == keys.len());
	let names = ["point lookups", "forward scan", "backward scan"];
	let mut cases = 0u64;
	let mut detected = 0u64;
	let mut failures: Vec<String> = Vec::new();
	let lo = if from_tail > 0 { buf.len().saturating_sub(from_tail) } else { 0 };
	let hi = buf.len() - skip_tail;
	for off in lo..hi {
		for pat in [0xffu8, 0x01] {
			cases += 1;
			let mut d = buf.clone();
			d[off] ^= pat;
			let r = std::panic::catch_unwind(std::panic::AssertUnwindSafe(|| answers(d)));
			match r {
				Err(_) => {
					if failures.len() < 5 {
						failures.push(format!("{{\"offset\":{off},\"xor\":{pat},\"file_len\":{},\"outcome\":\"PANIC\"}}", buf.len()));
					}
				}
				Ok(Err(_)) => detected += 1,
				Ok(Ok(readings)) => {
					let mut any_err = false;
					for (i, rd) in readings.iter().enumerate() {
						match rd {
							Err(_) => any_err = true,
							Ok(a) => {
								if *a != pristine[i] && failures.len() < 5 {
									let nbad = a.iter().zip(pristine[i].iter()).filter(|(x, y)| x != y).count() + a.len().abs_diff(pristine[i].len());
									failures.push(format!("{{\"offset\":{off},\"xor\":{pat},\"file_len\":{},\"outcome\":\"different data served without error by the {}: {} answers, the pristine table gives {}, {nbad} differ\"}}", buf.len(), names[i], a.len(), pristine[i].len()));
								}
							}
						}
					}
					if any_err {
						detected += 1;
					}
				}
			}
		}
	}
	println!(
		"REPLAY-RESULT {{\"driver\":\"sstable::table::{name}\",\"cases\":{cases},\"distinct_nontrivial\":{detected},\"failures\":[{}]}}",
		failures.join(",")
	);
	assert!(failures.is_empty());
}

#[test]
fn damage_sweep_body() {
	// everything except the 50-byte footer (block handles in the footer are not covered by any checksum)
	damage_sweep_impl(0, 50, "damage_sweep_body");
}

#[test]
fn damage_sweep_footer() {
	// the last 50 bytes: footer (format, checksum type, two varint block handles, padding, magic)
	damage_sweep_impl(50, 0, "damage_sweep_footer");
}

// ------------------------------------------------------------------------------------------------
// C13 bounded check: whatever strictly ordered set of versioned entries is written with the real TableWriter is
// returned completely and in order by forward and backward iteration and by seek, and Table::get(key, snapshot)
// returns the newest version of that key at or below the snapshot or nothing - for every option combination.
// Filters and key-range shortcuts must never hide a present entry.
// Bound (stated): user keys {a, a\0, a\0\0, ab, ab\xff, b} (shared prefixes, keys that extend another key by
// bytes of its trailer, 0xff-terminated), per key 0..3 versions (seq 5 / 9,5 / 9(delete),7,5), every combination
// (4^6 = 4096 entry sets, quick tier: the 4^5 sets without `b`) x block size {32, 4096} x restart interval {1,16}
// x index partition size {64, 16384} x filter {on, off}; lookups at seq {4,5,6,8,9,10,max} for all six keys.
fn roundtrip_enum_impl(nkeys: usize, name: &str) {
	use crate::LSMIterator as _;
	let universe: Vec<Vec<u8>> = vec![b"a".to_vec(), b"a\0".to_vec(), b"a\0\0".to_vec(), b"ab".to_vec(), b"ab\xff".to_vec(), b"b".to_vec()];
	let lookups: Vec<u64> = vec![4, 5, 6, 8, 9, 10, crate::INTERNAL_KEY_SEQ_NUM_MAX];
	let mut cases = 0u64;
	let mut nontrivial = 0u64;
	let mut failures: Vec<String> = Vec::new();
	let mut samples: Vec<String> = Vec::new();
	// the table's own order: user key ascending, then (sequence number, kind) descending
	let icmp = crate::comparator::InternalKeyComparator::new(Arc::new(crate::BytewiseComparator::default()));
	use crate::Comparator as _;
	let mut by_config: std::collections::BTreeMap<String, u64> = std::collections::BTreeMap::new();
	let show = |k: &[u8]| k.iter().map(|b| if b.is_ascii_graphic() { (*b as char).to_string() } else { format!("\\\\x{b:02x}") }).collect::<String>();
	for block_size in [32usize, 4096] {
		for restart in [1usize, 16] {
			for part in [64usize, 16384] {
				for filter in [true, false] {
					let mut o = Options::new().with_block_size(block_size).with_block_restart_interval(restart).with_index_partition_size(part);
					if !filter {
						o = o.with_filter_policy(None);
					}
					let opts = Arc::new(o);
					for code in 1..4usize.pow(nkeys as u32) {
						cases += 1;
						// entries in table order: user key ascending, seq descending
						let mut entries: Vec<(InternalKey, Vec<u8>)> = Vec::new();
						let mut x = code;
						for k in universe.iter().take(nkeys) {
							let pat = x % 4;
							x /= 4;
							let vers: &[(u64, InternalKeyKind)] = match pat {
								0 => &[],
								1 => &[(5, InternalKeyKind::Set)],
								2 => &[(9, InternalKeyKind::Set), (5, InternalKeyKind::Set)],
								_ => &[(9, InternalKeyKind::Delete), (7, InternalKeyKind::Set), (5, InternalKeyKind::Set)],
							};
							for &(s, kind) in vers {
								let val = if kind == InternalKeyKind::Delete || s == 7 { Vec::new() } else { ValueLocation::with_inline_value(format!("{}@{s}", show(k)).into_bytes()).encode() };
								entries.push((InternalKey::new(k.clone(), s, kind, 0), val));
							}
						}
						if entries.len() >= 4 {
							nontrivial += 1;
						}
						let mut buf = Vec::new();
						let mut bad: Option<String> = None;
						{
							let mut w = TableWriter::new(&mut buf, cases, Arc::clone(&opts), 0); // table ids are unique in a store: the block cache is keyed by them
							for (k, v) in &entries {
								if let Err(e) = w.add(k.clone(), v) {
									bad = Some(format!("add failed: {e}"));
									break;
								}
							}
							if bad.is_none() {
								if let Err(e) = w.finish() {
									bad = Some(format!("finish failed: {e}"));
								}
							}
						}
						if bad.is_none() {
							let size = buf.len() as u64;
							let file: Arc<dyn File> = Arc::new(buf);
							match Table::new(cases, Arc::clone(&opts), file, size) {
								Err(e) => bad = Some(format!("open failed: {e}")),
								Ok(t) => {
									// point lookups
									'outer: for k in &universe {
										for &s in &lookups {
											let want = entries.iter().find(|(ik, _)| &ik.user_key == k && ik.seq_num() <= s);
											let probe = InternalKey::new(k.clone(), s, InternalKeyKind::Set, 0);
											if !t.is_key_in_key_range(&probe) && want.is_none() {
												continue; // the caller's range shortcut; nothing present is hidden
											}
											match t.get(&probe) {
												Err(e) => {
													bad = Some(format!("get({}, {s}) failed: {e}", show(k)));
													break 'outer;
												}
												Ok(got) => {
													// a lookup may return an entry of a DIFFERENT user key only as "nothing for this key"
													let got_k = got.as_ref().filter(|(ik, _)| &ik.user_key == k);
													let same = match (got_k, want) {
														(None, None) => true,
														(Some((gk, gv)), Some((wk, wv))) => gk.seq_num() == wk.seq_num() && gk.kind() == wk.kind() && gv == wv,
														_ => false,
													};
													if !same {
														bad = Some(format!("get({}, snapshot {s}) returns {:?}, the newest version at or below the snapshot is {:?}", show(k), got.as_ref().map(|(ik, _)| format!("{}@{}", show(&ik.user_key), ik.seq_num())), want.map(|(ik, _)| format!("{}@{}", show(&ik.user_key), ik.seq_num()))));
														break 'outer;
													}
												}
											}
										}
									}
									// complete iteration, both directions, and seeks
									if bad.is_none() {
										let listing = |backward: bool| -> std::result::Result<Vec<(Vec<u8>, Vec<u8>)>, String> {
											let mut it = t.iter(None).map_err(|e| e.to_string())?;
											let mut out = Vec::new();
											let mut ok = if backward { it.seek_last() } else { it.seek_first() }.map_err(|e| e.to_string())?;
											while ok && out.len() <= entries.len() + 2 {
												out.push((it.key().encoded().to_vec(), it.value_encoded().map_err(|e| e.to_string())?.to_vec()));
												ok = if backward { it.prev() } else { it.next() }.map_err(|e| e.to_string())?;
											}
											if backward {
												out.reverse();
											}
											Ok(out)
										};
										let want: Vec<(Vec<u8>, Vec<u8>)> = entries.iter().map(|(k, v)| (k.encode(), v.clone())).collect();
										for backward in [false, true] {
											match listing(backward) {
												Err(e) => bad = Some(format!("iteration failed: {e}")),
												Ok(l) => {
													if l != want && bad.is_none() {
														bad = Some(format!("{} iteration returns {} entries {:?}, written were {} entries", if backward { "backward" } else { "forward" }, l.len(), l.iter().map(|(k, _)| { let ik = InternalKey::decode(k); format!("{}@{}", show(&ik.user_key), ik.seq_num()) }).collect::<Vec<_>>(), want.len()));
													}
												}
											}
										}
										// bounded cursors: every (lower, upper) from {unbounded, included(u), excluded(u)} over the
										// key universe and a key past every stored key; complete walk in both directions
										if bad.is_none() {
											use std::ops::Bound;
											let mut marks: Vec<Vec<u8>> = universe.clone();
											marks.push(b"zz".to_vec());
											let mut bounds: Vec<Bound<Vec<u8>>> = vec![Bound::Unbounded];
											for m in &marks {
												bounds.push(Bound::Included(m.clone()));
												bounds.push(Bound::Excluded(m.clone()));
											}
											let bshow = |b: &Bound<Vec<u8>>| match b {
												Bound::Unbounded => "unbounded".to_string(),
												Bound::Included(k) => format!("included({})", show(k)),
												Bound::Excluded(k) => format!("excluded({})", show(k)),
											};
											'rng: for lo in &bounds {
												for hi in &bounds {
													let asref = |b: &Bound<Vec<u8>>| -> Bound<Vec<u8>> { b.clone() };
													let (lo2, hi2) = (asref(lo), asref(hi));
													let lob: Bound<&[u8]> = match &lo2 { Bound::Unbounded => Bound::Unbounded, Bound::Included(k) => Bound::Included(k.as_slice()), Bound::Excluded(k) => Bound::Excluded(k.as_slice()) };
													let hib: Bound<&[u8]> = match &hi2 { Bound::Unbounded => Bound::Unbounded, Bound::Included(k) => Bound::Included(k.as_slice()), Bound::Excluded(k) => Bound::Excluded(k.as_slice()) };
													let range = crate::user_range_to_internal_range(lob, hib);
													let inside = |uk: &Vec<u8>| -> bool {
														(match lo { Bound::Unbounded => true, Bound::Included(k) => uk >= k, Bound::Excluded(k) => uk > k })
															&& (match hi { Bound::Unbounded => true, Bound::Included(k) => uk <= k, Bound::Excluded(k) => uk < k })
													};
													let want_r: Vec<(Vec<u8>, Vec<u8>)> = entries.iter().filter(|(ik, _)| inside(&ik.user_key)).map(|(k, v)| (k.encode(), v.clone())).collect();
													for backward in [false, true] {
														let walk = || -> std::result::Result<Vec<(Vec<u8>, Vec<u8>)>, String> {
															let mut it = t.iter(Some(range.clone())).map_err(|e| e.to_string())?;
															let mut out = Vec::new();
															let mut ok = if backward { it.seek_last() } else { it.seek_first() }.map_err(|e| e.to_string())?;
															while ok && out.len() <= entries.len() + 2 {
																out.push((it.key().encoded().to_vec(), it.value_encoded().map_err(|e| e.to_string())?.to_vec()));
																ok = if backward { it.prev() } else { it.next() }.map_err(|e| e.to_string())?;
															}
															if backward {
																out.reverse();
															}
															Ok(out)
														};
														let res = match std::panic::catch_unwind(std::panic::AssertUnwindSafe(walk)) {
															Ok(r) => r,
															Err(_) => Err("PANIC (message on stderr of the driver run)".to_string()),
														};
														match res {
															Err(e) => bad = Some(format!("bounded {} walk [{}, {}] failed: {e}", if backward { "backward" } else { "forward" }, bshow(lo), bshow(hi))),
															Ok(l) => {
																if l != want_r {
																	bad = Some(format!("bounded {} walk [{}, {}] returns {:?}, the entries inside the bounds are {:?}", if backward { "backward" } else { "forward" }, bshow(lo), bshow(hi),
																		l.iter().map(|(k, _)| { let ik = InternalKey::decode(k); format!("{}@{}", show(&ik.user_key), ik.seq_num()) }).collect::<Vec<_>>(),
																		want_r.iter().map(|(k, _)| { let ik = InternalKey::decode(k); format!("{}@{}", show(&ik.user_key), ik.seq_num()) }).collect::<Vec<_>>()));
																}
															}
														}
														if bad.is_some() {
															break 'rng;
														}
													}
												}
											}
										}
										// RE-SEEK on one long-lived cursor: seek(from) then seek(to) must land where a fresh seek(to) lands
										// (small blocks only: versions of one key then span several blocks)
										if bad.is_none() && block_size == 32 && restart == 1 {
											let mut targets: Vec<InternalKey> = Vec::new();
											for k in &universe {
												for &s in &[10u64, 9, 6, 5, 1] {
													targets.push(InternalKey::new(k.clone(), s, InternalKeyKind::Set, 0));
												}
											}
											if let Ok(mut it) = t.iter(None) {
												'pairs: for from in &targets {
													for to in &targets {
														let want_idx = entries.iter().position(|(ik, _)| icmp.compare(&ik.encode(), &to.encode()) != Ordering::Less);
														let r1 = it.seek(&from.encode());
														let r2 = it.seek(&to.encode());
														let got = match (r1, r2) {
															(Ok(_), Ok(true)) => Some(it.key().encoded().to_vec()),
															(Ok(_), Ok(false)) => None,
															(Err(e), _) | (_, Err(e)) => {
																bad = Some(format!("re-seek failed: {e}"));
																break 'pairs;
															}
														};
														let wantk = want_idx.map(|i| entries[i].0.encode());
														if got != wantk {
															bad = Some(format!("one cursor: seek({}@{}) then seek({}@{}) lands on {:?}, the first entry at or after the second target is {:?}", show(&from.user_key), from.seq_num(), show(&to.user_key), to.seq_num(),
																got.as_ref().map(|g| { let ik = InternalKey::decode(g); format!("{}@{}", show(&ik.user_key), ik.seq_num()) }), want_idx.map(|i| format!("{}@{}", show(&entries[i].0.user_key), entries[i].0.seq_num()))));
															break 'pairs;
														}
													}
												}
											}
										}
										// SEEK INSIDE A BOUNDED CURSOR whose inclusive upper bound carries a sequence number (bounds are user-key
										// bounds: every version of the bound key is inside): seek(target) lands on the first entry of the bounded
										// walk at or after the target
										if bad.is_none() && block_size == 32 && restart == 1 {
											'ub: for kb in &universe {
												for &sb in &[9u64, 5] {
													let range = (Bound::Unbounded, Bound::Included(InternalKey::new(kb.clone(), sb, InternalKeyKind::Set, 0)));
													let inside: Vec<&(InternalKey, Vec<u8>)> = entries.iter().filter(|(ik, _)| &ik.user_key <= kb).collect();
													for k in &universe {
														for &s in &[10u64, 6, 4, 1] {
															let target = InternalKey::new(k.clone(), s, InternalKeyKind::Set, 0);
															let want = inside.iter().find(|(ik, _)| icmp.compare(&ik.encode(), &target.encode()) != Ordering::Less).map(|(ik, _)| ik.encode());
															let got = match t.iter(Some(range.clone())) {
																Err(e) => Err(e.to_string()),
																Ok(mut it) => match it.seek(&target.encode()) {
																	Ok(true) => Ok(Some(it.key().encoded().to_vec())),
																	Ok(false) => Ok(None),
																	Err(e) => Err(e.to_string()),
																},
															};
															if got != Ok(want.clone()) {
																bad = Some(format!("cursor bounded above by included({}@{}): seek({}@{}) gives {:?}, the first entry inside the bounds at or after the target is {:?}", show(kb), sb, show(k), s,
																	got.as_ref().map(|o| o.as_ref().map(|g| { let ik = InternalKey::decode(g); format!("{}@{}", show(&ik.user_key), ik.seq_num()) })), want.as_ref().map(|g| { let ik = InternalKey::decode(g); format!("{}@{}", show(&ik.user_key), ik.seq_num()) })));
																break 'ub;
															}
														}
													}
												}
											}
										}
										if bad.is_none() {
											for k in &universe {
												for &s in &[10u64, 9, 6, 5, 1] {
													let target = InternalKey::new(k.clone(), s, InternalKeyKind::Set, 0);
													let want_idx = entries.iter().position(|(ik, _)| icmp.compare(&ik.encode(), &target.encode()) != Ordering::Less);
													let mut it = match t.iter(None) {
														Ok(it) => it,
														Err(e) => {
															bad = Some(format!("iter failed: {e}"));
															break;
														}
													};
													let ok = match it.seek(&target.encode()) {
														Ok(v) => v,
														Err(e) => {
															bad = Some(format!("seek failed: {e}"));
															break;
														}
													};
													let got = if ok { Some(it.key().encoded().to_vec()) } else { None };
													let wantk = want_idx.map(|i| entries[i].0.encode());
													if got != wantk && bad.is_none() {
														bad = Some(format!("seek({}@{s}) lands on {:?}, first entry at or after the target is {:?}", show(k), got.as_ref().map(|g| { let ik = InternalKey::decode(g); format!("{}@{}", show(&ik.user_key), ik.seq_num()) }), want_idx.map(|i| format!("{}@{}", show(&entries[i].0.user_key), entries[i].0.seq_num()))));
													}
												}
											}
										}
									}
								}
							}
						}
						if bad.is_some() {
							*by_config.entry(format!("block{block_size}/restart{restart}/partition{part}/filter{filter}")).or_insert(0u64) += 1;
						}
						if let Some(b) = bad {
							if failures.len() < 5 {
								failures.push(format!("{{\"entries\":\"{}\",\"block_size\":{block_size},\"restart_interval\":{restart},\"index_partition_size\":{part},\"filter\":{filter},\"mismatch\":{:?}}}", entries.iter().map(|(k, _)| format!("{}@{}{}", show(&k.user_key), k.seq_num(), if k.kind() == InternalKeyKind::Delete { "D" } else { "" })).collect::<Vec<_>>().join(" "), b));
							}
						} else if samples.len() < 3 && entries.len() >= 8 && block_size == 32 {
							samples.push(format!("\"{} (block {block_size}, restart {restart}, partition {part}, filter {filter})\"", entries.iter().map(|(k, _)| format!("{}@{}", show(&k.user_key), k.seq_num())).collect::<Vec<_>>().join(" ")));
						}
					}
				}
			}
		}
	}
	println!(
		"REPLAY-RESULT {{\"driver\":\"sstable::table::{name}\",\"cases\":{cases},\"distinct_nontrivial\":{nontrivial},\"samples\":[{}],\"failing_entry_sets_by_config\":{:?},\"failures\":[{}]}}",
		samples.join(","),
		by_config,
		failures.join(",")
	);
	assert!(failures.is_empty());
}

#[test]
fn roundtrip_enum_quick() {
	roundtrip_enum_impl(5, "roundtrip_enum_quick");
}

#[test]
fn roundtrip_enum_thorough() {
	roundtrip_enum_impl(6, "roundtrip_enum_thorough");
}
