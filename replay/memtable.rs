// replay hooks for src/memtable/mod.rs (included as a child module `verif_replay` of that file)
