// replay hooks for src/lib.rs (included as a child module `verif_replay` of that file)
