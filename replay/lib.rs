// replay hooks for src/lib.rs (included as a child module `verif_replay` of that file)
//
// C18 exploration (NOT a proof, NOT exhaustive): the real disk B+tree (src/bplustree/tree.rs) against an ordered map.
// Deterministic pseudo-random operation sequences (xorshift, seed from VERIF_SEED, default 0) over a skewed key
// set; after EVERY operation the answer of the operation is compared with the model, and after every 8th
// operation (and after every reopen) the complete forward scan, the complete backward scan (cursor seek_last / prev), a sub-range scan and point lookups of all keys
// are compared.
//   * bytewise key order: keys of 1..40 bytes from a pool of 48 (shared prefixes, 0x00 / 0xff bytes)
//   * version key order (TimestampComparator over encoded internal keys): 6 user keys x 5 timestamps, every
//     insert carries a fresh sequence number and a kind - an insert of an existing (user key, timestamp) must
//     replace the stored KEY bytes as well as the value
//   * value sizes {0, 10, 300, 900, 990, 1000, 1500, 3000, 5000} (the large ones live in overflow chains and take
//     less room on the leaf than a 990-byte inline value), deletes, overwrites, reopen
// Bound (stated): `nseq` sequences x `len` operations per key order.
use super::*;
use crate::bplustree::tree::new_disk_tree;
use std::collections::BTreeMap;
use std::ops::Bound;

struct Rng(u64);
impl Rng {
	fn next(&mut self) -> u64 {
		let mut x = self.0;
		x ^= x << 13;
		x ^= x >> 7;
		x ^= x << 17;
		self.0 = x;
		x
	}
	fn below(&mut self, n: u64) -> u64 {
		self.next() % n
	}
}

fn value_of(rng: &mut Rng, tag: u64) -> Vec<u8> {
	// 900..1000 is just below / around the largest value stored inline; 1500..5000 go to overflow pages and take
	// LESS room on the leaf than those
	let len = [0usize, 10, 300, 900, 990, 1000, 1500, 3000, 5000][rng.below(9) as usize];
	let mut v = vec![(tag % 251) as u8; len];
	for (i, b) in v.iter_mut().enumerate().take(8) {
		*b = ((tag >> (8 * (i % 8))) & 0xff) as u8;
	}
	v
}

fn bptree_enum_impl(nseq: u64, len: usize, name: &str) {
	let seed: u64 = std::env::var("VERIF_SEED").ok().and_then(|s| s.parse().ok()).unwrap_or(0);
	let mut cases = 0u64;
	let mut nontrivial = 0u64;
	let mut failures: Vec<String> = Vec::new();
	let mut samples: Vec<String> = Vec::new();
	let mut ops_total = 0u64;
	// key pool for the bytewise order
	let mut pool: Vec<Vec<u8>> = Vec::new();
	for i in 0..48u8 {
		let mut k = match i % 4 {
			0 => vec![b'k'],
			1 => b"key/".to_vec(),
			2 => b"key/long/prefix/shared/by/many/".to_vec(),
			_ => vec![0xff, 0x00],
		};
		k.push(i);
		if i % 5 == 0 {
			k.push(0);
		}
		if i % 7 == 0 {
			k.push(0xff);
		}
		pool.push(k);
	}
	// FIXED SHAPES (deterministic, both key orders): fill with n keys, delete a run / a stride of them so that leaves merge
	// and redistribute, then compare point lookups, the complete forward scan and the complete BACKWARD scan with the map
	for version_order in [false, true] {
		// shape 3 (free list with a FULL trunk page, then a root collapse): fill 40 keys, insert and delete one entry whose
		// overflow chain has `chain` pages (1018..=1022 around TRUNK_PAGE_MAX_ENTRIES = 1020), delete all but 4 keys in ascending order
		for &(n, vlen, shape, chain) in &[(300usize, 100usize, 0usize, 0usize), (300, 100, 1, 0), (300, 100, 2, 0), (120, 1500, 0, 0), (120, 1500, 1, 0), (40, 100, 3, 1018), (40, 100, 3, 1019), (40, 100, 3, 1020), (40, 100, 3, 1021), (40, 100, 3, 1022)] {
			use crate::LSMIterator as _;
			cases += 1;
			let dir = tempdir::TempDir::new("verif_c18f").unwrap();
			let path = dir.path().join("tree.bpt");
			let cmp: Arc<dyn Comparator> = if version_order { Arc::new(TimestampComparator::new(Arc::new(BytewiseComparator::default()))) } else { Arc::new(BytewiseComparator::default()) };
			let mut tree = match new_disk_tree(&path, Arc::clone(&cmp)) {
				Ok(t) => t,
				Err(e) => {
					failures.push(format!("{{\"fixed_shape\":{shape},\"mismatch\":\"create failed: {e}\"}}"));
					continue;
				}
			};
			let key = |i: usize| -> Vec<u8> {
				if version_order {
					InternalKey::new(format!("k{i:04}").into_bytes(), 7, InternalKeyKind::Set, 100).encode()
				} else {
					format!("key-of-sixteen-bytes-{i:04}").into_bytes()
				}
			};
			let mut model: BTreeMap<Vec<u8>, Vec<u8>> = BTreeMap::new();
			let mut bad: Option<String> = None;
			for i in 0..n {
				let v = vec![(i % 251) as u8; vlen];
				if let Err(e) = tree.insert(&key(i), &v) {
					bad = Some(format!("insert #{i} failed: {e}"));
					break;
				}
				model.insert(key(i), v);
			}
			if bad.is_none() && chain > 0 {
				let big_key = key(9999);
				let big = vec![0xabu8; 486 + chain * 4083 - 13];
				match tree.insert(&big_key, &big) {
					Err(e) => bad = Some(format!("insert of the {}-byte entry failed: {e}", big.len())),
					Ok(()) => match tree.delete(&big_key) {
						Ok(Some(_)) => {}
						other => bad = Some(format!("delete of the large entry: {:?}", other.map(|o| o.map(|v| v.len())).map_err(|e| e.to_string()))),
					},
				}
			}
			let doomed: Vec<usize> = match shape {
				3 => (0..n - 4).collect(),                      // all but the last four, ascending: the root collapses
				0 => (n / 5..2 * n / 3).collect(),             // a contiguous run in the middle
				1 => (0..n).filter(|i| i % 2 == 1).collect(),  // every other key
				_ => (0..n).filter(|i| *i < n / 3 || *i >= n - n / 4).collect(), // both ends
			};
			if bad.is_none() {
				for &i in &doomed {
					match tree.delete(&key(i)) {
						Ok(Some(_)) => {
							model.remove(&key(i));
						}
						Ok(None) => {
							bad = Some(format!("delete #{i} found nothing"));
							break;
						}
						Err(e) => {
							bad = Some(format!("delete #{i} failed: {e}"));
							break;
						}
					}
				}
			}
			for round in 0..2 {
				if bad.is_some() {
					break;
				}
				if round == 1 {
					let _ = tree.flush();
					drop(tree);
					tree = match new_disk_tree(&path, Arc::clone(&cmp)) {
						Ok(t) => t,
						Err(e) => {
							bad = Some(format!("reopen failed: {e}"));
							break;
						}
					};
				}
				let want: Vec<(Vec<u8>, Vec<u8>)> = model.iter().map(|(k, v)| (k.clone(), v.clone())).collect();
				for i in 0..n {
					let got = tree.get(&key(i)).map(|o| o.map(|b| b.to_vec())).map_err(|e| e.to_string());
					if got != Ok(model.get(&key(i)).cloned()) {
						bad = Some(format!("get #{i} (round {round}) = {:?}, the map holds {:?} bytes", got.map(|o| o.map(|v| v.len())), model.get(&key(i)).map(|v| v.len())));
						break;
					}
				}
				if bad.is_some() {
					break;
				}
				for backward in [false, true] {
					let walk = || -> std::result::Result<Vec<(Vec<u8>, Vec<u8>)>, String> {
						let mut it = tree.internal_iterator();
						let mut out = Vec::new();
						let mut ok = if backward { it.seek_last() } else { it.seek_first() }.map_err(|e| e.to_string())?;
						while ok && out.len() <= want.len() + 2 {
							out.push((it.key().encoded().to_vec(), it.value_encoded().map_err(|e| e.to_string())?.to_vec()));
							ok = if backward { it.prev() } else { it.next() }.map_err(|e| e.to_string())?;
						}
						if backward {
							out.reverse();
						}
						Ok(out)
					};
					match walk() {
						Err(e) => bad = Some(format!("{} scan (round {round}) failed: {e}", if backward { "backward" } else { "forward" })),
						Ok(got) => {
							if got != want {
								bad = Some(format!("{} scan (round {round}) returns {} entries, the map holds {}", if backward { "backward" } else { "forward" }, got.len(), want.len()));
							}
						}
					}
					if bad.is_some() {
						break;
					}
				}
			}
			nontrivial += 1;
			if let Some(b) = bad {
				if failures.len() < 5 {
					failures.push(format!("{{\"key_order\":\"{}\",\"fixed_shape\":\"{n} keys with {vlen}-byte values, delete pattern {shape} (0 = middle run, 1 = every other key, 2 = both ends, 3 = all but four after freeing a {chain}-page overflow chain)\",\"mismatch\":{:?}}}", if version_order { "version" } else { "bytewise" }, b));
				}
			}
		}
	}
	// VERIF_ONLY_SEQ=<n>: run only that sequence (both key orders) and print the complete operation trace
	let only: Option<u64> = std::env::var("VERIF_ONLY_SEQ").ok().and_then(|s| s.parse().ok());
	for version_order in [false, true] {
		for s in 0..nseq {
			if only.map_or(false, |o| o != s) {
				continue;
			}
			cases += 1;
			let mut rng = Rng(0x9E3779B97F4A7C15 ^ (seed.wrapping_mul(0x100000001B3)) ^ (s + 1).wrapping_mul(0xD1342543DE82EF95) ^ (version_order as u64));
			let dir = tempdir::TempDir::new("verif_c18").unwrap();
			let path = dir.path().join("tree.bpt");
			let cmp: Arc<dyn Comparator> = if version_order { Arc::new(TimestampComparator::new(Arc::new(BytewiseComparator::default()))) } else { Arc::new(BytewiseComparator::default()) };
			let mut tree = match new_disk_tree(&path, Arc::clone(&cmp)) {
				Ok(t) => t,
				Err(e) => {
					failures.push(format!("{{\"sequence\":{s},\"mismatch\":\"create failed: {e}\"}}"));
					continue;
				}
			};
			// model: order key -> (stored key bytes, value)
			let mut model: BTreeMap<Vec<u8>, (Vec<u8>, Vec<u8>)> = BTreeMap::new();
			let mut trace: Vec<String> = Vec::new();
			let mut bad: Option<String> = None;
			let mut seqno = 0u64;
			let mut splits_likely = 0usize;
			let mk = |rng: &mut Rng, seqno: &mut u64| -> (Vec<u8>, Vec<u8>) {
				if version_order {
					let uk = format!("u{}", rng.below(6)).into_bytes();
					let ts = 100 * (1 + rng.below(5));
					*seqno += 1;
					let kind = [InternalKeyKind::Set, InternalKeyKind::SoftDelete, InternalKeyKind::Delete, InternalKeyKind::Replace][rng.below(4) as usize];
					// sequence numbers from a small pool, so that keys EQUAL under the version order (same user key,
					// timestamp and sequence number) but with different bytes (kind) are hit again and again
					let sq = 1 + rng.below(3);
					let ik = InternalKey::new(uk.clone(), sq, kind, ts);
					// order key: user key, then timestamp DESCENDING, then sequence number DESCENDING
					let mut ok = uk;
					ok.push(0);
					ok.extend_from_slice(&(u64::MAX - ts).to_be_bytes());
					ok.extend_from_slice(&(u64::MAX - sq).to_be_bytes());
					(ok, ik.encode())
				} else {
					let k = pool[(rng.below(48).min(rng.below(48))) as usize].clone(); // skewed towards the low indices
					(k.clone(), k)
				}
			};
			for step in 0..len {
				ops_total += 1;
				let choice = rng.below(100);
				if choice < 55 {
					let (ok, kb) = mk(&mut rng, &mut seqno);
					let v = value_of(&mut rng, s * 1000 + step as u64);
					trace.push(format!("insert(key {:?}, value len {})", kb, v.len()));
					if v.len() >= 300 {
						splits_likely += 1;
					}
					if let Err(e) = tree.insert(&kb, &v) {
						bad = Some(format!("step {step}: insert failed: {e}"));
						break;
					}
					model.insert(ok, (kb, v));
				} else if choice < 75 {
					let (ok, kb) = mk(&mut rng, &mut seqno);
					trace.push(format!("delete(key {:?})", kb));
					let want = model.remove(&ok).map(|(_, v)| v);
					match tree.delete(&kb) {
						Err(e) => {
							bad = Some(format!("step {step}: delete failed: {e}"));
							break;
						}
						Ok(got) => {
							if got.as_ref().map(|b| b.to_vec()) != want {
								bad = Some(format!("step {step}: delete returned a value of {:?} bytes, the map holds {:?} bytes", got.map(|b| b.len()), want.map(|b| b.len())));
								break;
							}
						}
					}
				} else if choice < 92 {
					let (ok, kb) = mk(&mut rng, &mut seqno);
					trace.push(format!("get(key {:?})", kb));
					let want = model.get(&ok).map(|(_, v)| v.clone());
					match tree.get(&kb) {
						Err(e) => {
							bad = Some(format!("step {step}: get failed: {e}"));
							break;
						}
						Ok(got) => {
							if got.as_ref().map(|b| b.to_vec()) != want {
								bad = Some(format!("step {step}: get returned {:?} bytes, the map holds {:?} bytes", got.map(|b| b.len()), want.map(|b| b.len())));
								break;
							}
						}
					}
				} else {
					trace.push("reopen".to_string());
					if let Err(e) = tree.close() {
						bad = Some(format!("step {step}: close failed: {e}"));
						break;
					}
					drop(tree);
					tree = match new_disk_tree(&path, Arc::clone(&cmp)) {
						Ok(t) => t,
						Err(e) => {
							bad = Some(format!("step {step}: reopen failed: {e}"));
							break;
						}
					};
				}
				if step % 8 == 7 || step + 1 == len || trace.last().map(|t| t == "reopen").unwrap_or(false) {
					// complete forward scan: stored key bytes and values in order
					let scan = |lo: Bound<&[u8]>, hi: Bound<&[u8]>| -> std::result::Result<Vec<(Vec<u8>, Vec<u8>)>, String> {
						let it = tree.range((lo, hi)).map_err(|e| e.to_string())?;
						let mut out = Vec::new();
						for item in it {
							let (k, v) = item.map_err(|e| e.to_string())?;
							out.push((k.to_vec(), v.to_vec()));
							if out.len() > model.len() + 2 {
								break;
							}
						}
						Ok(out)
					};
					let want: Vec<(Vec<u8>, Vec<u8>)> = model.values().cloned().collect();
					match scan(Bound::Unbounded, Bound::Unbounded) {
						Err(e) => bad = Some(format!("step {step}: scan failed: {e}")),
						Ok(got) => {
							if got != want {
								let first = (0..got.len().max(want.len())).find(|&i| got.get(i) != want.get(i)).unwrap();
								bad = Some(format!("step {step}: full scan returns {} entries, the map holds {}; first difference at position {first}: tree has key of {:?} bytes / value of {:?} bytes, map has key of {:?} bytes / value of {:?} bytes{}", got.len(), want.len(), got.get(first).map(|e| e.0.len()), got.get(first).map(|e| e.1.len()), want.get(first).map(|e| e.0.len()), want.get(first).map(|e| e.1.len()), if got.get(first).map(|e| &e.1) == want.get(first).map(|e| &e.1) && got.get(first).map(|e| &e.0) != want.get(first).map(|e| &e.0) { " (same value, different stored key bytes)" } else { "" }));
							}
						}
					}
					// complete BACKWARD scan through the cursor interface (seek_last, prev ...): the leaf chain's back links
					if bad.is_none() && want.iter().all(|(k, _)| k.len() >= 16) {
						use crate::LSMIterator as _;
						let back = || -> std::result::Result<Vec<(Vec<u8>, Vec<u8>)>, String> {
							let mut it = tree.internal_iterator();
							let mut out = Vec::new();
							let mut ok = it.seek_last().map_err(|e| e.to_string())?;
							while ok && out.len() <= want.len() + 2 {
								out.push((it.key().encoded().to_vec(), it.value_encoded().map_err(|e| e.to_string())?.to_vec()));
								ok = it.prev().map_err(|e| e.to_string())?;
							}
							out.reverse();
							Ok(out)
						};
						match back() {
							Err(e) => bad = Some(format!("step {step}: backward scan failed: {e}")),
							Ok(got) => {
								if got != want {
									bad = Some(format!("step {step}: backward scan (seek_last, prev ...) returns {} entries, the map holds {}", got.len(), want.len()));
								}
							}
						}
					}
					if bad.is_none() && !version_order && model.len() >= 2 {
						// a sub-range [k_lo, k_hi) in key order
						let keys: Vec<&Vec<u8>> = model.keys().collect();
						let lo = keys[keys.len() / 4].clone();
						let hi = keys[(3 * keys.len()) / 4].clone();
						let want: Vec<(Vec<u8>, Vec<u8>)> = model.range(lo.clone()..hi.clone()).map(|(_, v)| v.clone()).collect();
						match scan(Bound::Included(&lo[..]), Bound::Excluded(&hi[..])) {
							Err(e) => bad = Some(format!("step {step}: range scan failed: {e}")),
							Ok(got) => {
								if got != want {
									bad = Some(format!("step {step}: range scan returns {} entries, the map holds {} in that range", got.len(), want.len()));
								}
							}
						}
					}
					if bad.is_some() {
						break;
					}
				}
			}
			if splits_likely >= 6 {
				nontrivial += 1;
				if samples.len() < 3 {
					samples.push(format!("\"order={} seq#{s}: {}\"", if version_order { "version" } else { "bytewise" }, trace.iter().take(12).cloned().collect::<Vec<_>>().join("; ")));
				}
			}
			if only.is_some() {
				eprintln!("TRACE order={} seq={s}:", if version_order { "version" } else { "bytewise" });
				for (i, t) in trace.iter().enumerate() {
					eprintln!("  {i}: {t}");
				}
				eprintln!("  result: {:?}", bad);
			}
			if let Some(b) = bad {
				if failures.len() < 5 {
					let tail: Vec<String> = trace.iter().rev().take(6).rev().cloned().collect();
					failures.push(format!("{{\"key_order\":\"{}\",\"seed\":{seed},\"sequence\":{s},\"last_operations\":\"{}\",\"mismatch\":{:?}}}", if version_order { "version (user key, timestamp)" } else { "bytewise" }, tail.join("; "), b));
				}
			}
		}
	}
	println!(
		"REPLAY-RESULT {{\"driver\":\"{name}\",\"cases\":{cases},\"operations\":{ops_total},\"distinct_nontrivial\":{nontrivial},\"seed\":{seed},\"samples\":[{}],\"failures\":[{}]}}",
		samples.join(","),
		failures.join(",")
	);
	assert!(failures.is_empty());
}

#[test]
fn bptree_enum_quick() {
	bptree_enum_impl(150, 80, "bptree_enum_quick");
}

#[test]
fn bptree_enum_thorough() {
	bptree_enum_impl(2000, 160, "bptree_enum_thorough");
}

// ------------------------------------------------------------------------------------------------
// C19 exploration (bounded, in ONE process; nothing here is under a contract - the guarantee rests on the OS
// advisory lock): while a store is open on a directory every further open of that directory fails and leaves
// every file of the directory (except the LOCK file itself) byte-identical; after close() or drop the directory
// opens again and holds the committed data.
// Bound (stated): all sequences of <= `maxlen` steps from {open slot 0|1, close slot 0|1, drop slot 0|1,
// commit through slot 0|1}, plus all sequences of `maxlen` + 1 steps that begin with [open 0, close 0]; two handles
// on one directory; a handle is dropped while a read transaction begun from it is still alive; a closed handle stays alive (closed, not dropped) until its slot is opened again or dropped,
// so the second run of the shutdown path by Drop happens while another store may be live.
// Other processes / process death are NOT exercised.
fn dir_state(p: &std::path::Path, out: &mut Vec<(String, Vec<u8>)>) {
	let mut ents: Vec<_> = std::fs::read_dir(p).map(|r| r.filter_map(|e| e.ok()).collect()).unwrap_or_default();
	ents.sort_by_key(|e: &std::fs::DirEntry| e.file_name());
	for e in ents {
		let path = e.path();
		if path.is_dir() {
			dir_state(&path, out);
		} else if e.file_name() != "LOCK" {
			out.push((path.to_string_lossy().to_string(), std::fs::read(&path).unwrap_or_default()));
		}
	}
}

#[derive(Clone, Copy, Debug, PartialEq)]
enum LOp {
	Open(usize),
	Close(usize),
	Drop(usize),
	Commit(usize),
}

async fn exclusive_enum_impl(maxlen: usize, name: &str) {
	// a store that was CLOSED stays in its slot (closed, not yet dropped) until the slot is opened again or dropped:
	// close() followed - possibly much later - by the drop of the handle is the normal life of a handle, and the
	// drop runs the shutdown path a second time
	let mut alpha = Vec::new();
	for s in 0..2usize {
		alpha.extend_from_slice(&[LOp::Open(s), LOp::Close(s), LOp::Drop(s), LOp::Commit(s)]);
	}
	let mut cases = 0u64;
	let mut nontrivial = 0u64;
	let mut failures: Vec<String> = Vec::new();
	let mut samples: Vec<String> = Vec::new();
	// all sequences of <= maxlen steps, plus all sequences of maxlen + 1 steps that begin with [open 0, close 0]
	let mut all_ops: Vec<Vec<LOp>> = Vec::new();
	for len in 1..=maxlen + 1 {
		for code in 0..alpha.len().pow(len as u32) {
			let mut ops = Vec::new();
			let mut x = code;
			for _ in 0..len {
				ops.push(alpha[x % alpha.len()]);
				x /= alpha.len();
			}
			if len == maxlen + 1 && !(ops[0] == LOp::Open(0) && ops[1] == LOp::Close(0)) {
				continue;
			}
			all_ops.push(ops);
		}
	}
	{
		for ops in all_ops {
			let len = ops.len();
			cases += 1;
			let dir = tempdir::TempDir::new("verif_c19").unwrap();
			// (store, closed)
			let mut slots: [Option<(crate::Tree, bool)>; 2] = [None, None];
			let mut model: std::collections::BTreeMap<Vec<u8>, Vec<u8>> = Default::default();
			let mut bad: Option<String> = None;
			let mut refused = false;
			for (i, op) in ops.iter().enumerate() {
				match *op {
					LOp::Open(s) => {
						match slots[s] {
							Some((_, false)) => continue,
							Some((_, true)) => {
								// the closed handle goes out of scope now: its drop runs the shutdown path again
								slots[s] = None;
								tokio::time::sleep(std::time::Duration::from_millis(60)).await;
							}
							None => {}
						}
						let other_live = matches!(slots[1 - s], Some((_, false)));
						let mut before = Vec::new();
						if other_live {
							dir_state(dir.path(), &mut before);
						}
						let mut r = crate::TreeBuilder::new().with_path(dir.path().to_path_buf()).build();
						// a dropped (not closed) store lets go of the directory when its background tasks have wound
						// down: allow it 20 s (loaded machine) before calling the directory stuck
						let mut waited_ms = 0;
						while r.is_err() && !other_live && waited_ms < 20000 {
							tokio::time::sleep(std::time::Duration::from_millis(50)).await;
							waited_ms += 50;
							r = crate::TreeBuilder::new().with_path(dir.path().to_path_buf()).build();
						}
						match (r, other_live) {
							(Ok(_t), true) => bad = Some(format!("step {i}: a second store opened the directory while the first one is still open")),
							(Err(_), true) => {
								refused = true;
								let mut after = Vec::new();
								dir_state(dir.path(), &mut after);
								if before != after {
									bad = Some(format!("step {i}: the refused open changed files of the directory"));
								}
							}
							(Ok(t), false) => {
								// holds the committed data
								let rd = t.begin().unwrap();
								for (k, v) in &model {
									if rd.get(k.clone()).unwrap_or(None).as_ref() != Some(v) {
										bad = Some(format!("step {i}: after reopening, key {} does not read its committed value", String::from_utf8_lossy(k)));
									}
								}
								drop(rd);
								slots[s] = Some((t, false));
							}
							(Err(e), false) => bad = Some(format!("step {i}: open failed although no store is open on the directory: {e}")),
						}
					}
					LOp::Close(s) => {
						if let Some((t, closed)) = slots[s].as_mut() {
							if !*closed {
								if let Err(e) = t.close().await {
									bad = Some(format!("step {i}: close failed: {e}"));
								}
								*closed = true;
							}
						}
					}
					LOp::Drop(s) => {
						if let Some((t, closed)) = slots[s].take() {
							// a read transaction begun from the store is still alive when the handle is dropped and
							// goes out of scope right after it (readers hold a reference to the store's core)
							let rd = if closed { None } else { t.begin().ok() };
							drop(t);
							drop(rd);
							tokio::time::sleep(std::time::Duration::from_millis(60)).await;
						}
					}
					LOp::Commit(s) => {
						if let Some((t, false)) = slots[s].as_ref() {
							let k = format!("k{i}").into_bytes();
							let mut tx = t.begin().unwrap();
							tx.set_durability(crate::Durability::Immediate);
							tx.set(k.clone(), b"v".to_vec()).unwrap();
							match tx.commit().await {
								Ok(()) => {
									model.insert(k, b"v".to_vec());
								}
								Err(e) => bad = Some(format!("step {i}: commit failed: {e}")),
							}
						}
					}
				}
				if bad.is_some() {
					break;
				}
			}
			for s in 0..2 {
				if let Some((t, closed)) = slots[s].take() {
					if !closed {
						let _ = t.close().await;
					}
				}
			}
			if refused {
				nontrivial += 1;
				if samples.len() < 3 && len == maxlen {
					samples.push(format!("\"{:?}\"", ops));
				}
			}
			if let Some(b) = bad {
				if failures.len() < 5 {
					failures.push(format!("{{\"steps\":\"{:?}\",\"mismatch\":{:?}}}", ops, b));
				}
			}
		}
	}
	println!(
		"REPLAY-RESULT {{\"driver\":\"{name}\",\"cases\":{cases},\"distinct_nontrivial\":{nontrivial},\"samples\":[{}],\"failures\":[{}]}}",
		samples.join(","),
		failures.join(",")
	);
	assert!(failures.is_empty());
}

#[tokio::test(flavor = "multi_thread", worker_threads = 2)]
async fn exclusive_enum_quick() {
	exclusive_enum_impl(3, "exclusive_enum_quick").await;
}

#[tokio::test(flavor = "multi_thread", worker_threads = 2)]
async fn exclusive_enum_thorough() {
	exclusive_enum_impl(4, "exclusive_enum_thorough").await;
}
