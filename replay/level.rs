// replay hooks for src/levels/level.rs (included as a child module `verif_replay` of that file)
