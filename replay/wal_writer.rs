// replay hooks for src/wal/writer.rs (included as a child module `verif_replay` of that file)
