// replay hooks for src/snapshot.rs (included as a child module `verif_replay` of that file)
