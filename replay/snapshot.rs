// Bounded-check driver for src/snapshot.rs (child module `verif_replay`).
// C01: the registry of live snapshot horizons (what compaction consults) always covers every open
// read transaction - also readers that share a start sequence, and readers that opened a range cursor.
// Bound (stated): programs of <= 5 operations over up to 3 reader slots from {begin(slot), drop(slot),
// commit_one_write, open+drop a range cursor on slot, get on slot}; after every step get_all_snapshots()
// must be exactly the (deduplicated, ascending) start sequences of the open readers.
use super::*;
use crate::{LSMIterator as _, TreeBuilder};

#[derive(Clone, Copy, Debug)]
enum Op {
	Begin(usize),
	DropR(usize),
	Write,
	Cursor(usize),
	Get(usize),
}

#[tokio::test(flavor = "multi_thread", worker_threads = 2)]
async fn registry_enum() {
	let mut alpha = Vec::new();
	for s in 0..3 {
		alpha.push(Op::Begin(s));
		alpha.push(Op::DropR(s));
		alpha.push(Op::Cursor(s));
		alpha.push(Op::Get(s));
	}
	alpha.push(Op::Write);
	let mut cases = 0u64;
	let mut nontrivial = 0u64;
	let mut failures: Vec<String> = Vec::new();
	let mut samples: Vec<String> = Vec::new();
	let dir = tempdir::TempDir::new("verif_c01").unwrap();
	let tree = TreeBuilder::new().with_path(dir.path().to_path_buf()).build().unwrap();
	let mut wcount = 0u64;
	for len in 1..=5usize {
		let total = alpha.len().pow(len as u32);
		for code in 0..total {
			let mut ops = Vec::new();
			let mut x = code;
			for _ in 0..len {
				ops.push(alpha[x % alpha.len()]);
				x /= alpha.len();
			}
			// skip programs that use a slot before beginning it (keeps the space meaningful)
			let mut open = [false; 3];
			let mut valid = true;
			for op in &ops {
				match *op {
					Op::Begin(s) => { if open[s] { valid = false; } open[s] = true; }
					Op::DropR(s) => { if !open[s] { valid = false; } open[s] = false; }
					Op::Cursor(s) | Op::Get(s) => { if !open[s] { valid = false; } }
					Op::Write => {}
				}
			}
			if !valid {
				continue;
			}
			cases += 1;
			let mut readers: [Option<crate::Transaction>; 3] = [None, None, None];
			let mut bad: Option<String> = None;
			let mut shared = false;
			for (i, op) in ops.iter().enumerate() {
				match *op {
					Op::Begin(s) => readers[s] = Some(tree.begin().unwrap()),
					Op::DropR(s) => readers[s] = None,
					Op::Write => {
						wcount += 1;
						let mut t = tree.begin().unwrap();
						t.set(format!("w{wcount}").into_bytes(), b"v".to_vec()).unwrap();
						t.commit().await.unwrap();
						drop(t);
					}
					Op::Cursor(s) => {
						let r = readers[s].as_ref().unwrap();
						let mut it = r.range(b"a".to_vec(), b"z".to_vec()).unwrap();
						let _ = it.seek_first();
					}
					Op::Get(s) => {
						let _ = readers[s].as_ref().unwrap().get(b"w1".to_vec());
					}
				}
				// contract: registrations == start sequences of the open readers (as multisets)
				let mut want: Vec<u64> = readers.iter().flatten().map(|r| r.start_seq_num).collect();
				want.sort();
				let mut dedup = want.clone();
				dedup.dedup();
				if dedup.len() < want.len() {
					shared = true;
				}
				// (only the tracker's public view is used, so the check does not depend on its representation)
				let got_set = tree.core.inner.snapshot_tracker.get_all_snapshots();
				if got_set != dedup && bad.is_none() {
					bad = Some(format!("after op {i} ({:?}): open readers start at {:?}, but get_all_snapshots() = {:?}", op, want, got_set));
				}
			}
			drop(readers);
			if shared {
				nontrivial += 1;
				if samples.len() < 3 && len == 5 {
					samples.push(format!("\"{:?}\"", ops));
				}
			}
			if let Some(b) = bad {
				if failures.len() < 5 {
					failures.push(format!("{{\"program\":\"{:?}\",\"mismatch\":{:?}}}", ops, b));
				}
			}
		}
	}
	println!(
		"REPLAY-RESULT {{\"driver\":\"snapshot::registry_enum\",\"cases\":{},\"distinct_nontrivial\":{},\"samples\":[{}],\"failures\":[{}]}}",
		cases,
		nontrivial,
		samples.join(","),
		failures.join(",")
	);
	assert!(failures.is_empty());
}

/// C01 / C06 bounded check on the real Tree: every open reader keeps reading exactly the state that was
/// committed when it began (point gets, forward and backward range scans), and a fresh reader reads the
/// current committed state, whatever memtable rotations, flushes and compaction rounds run in between.
/// Bound (stated): programs of <= `maxlen` operations from {set k0|k1, delete k0|k1, rotate memtable
/// (no flush), flush, compact, begin reader 0|1}, level_count 3; maxlen 3 (quick) / 4 (thorough).
#[derive(Clone, Copy, Debug, PartialEq)]
enum POp {
	Set(u8),
	Del(u8),
	Rotate,
	Flush,
	Compact,
	BeginR(usize),
}

fn scan(tx: &crate::Transaction, backward: bool) -> Vec<(Vec<u8>, Vec<u8>)> {
	let mut it = tx.range(b"k".to_vec(), b"l".to_vec()).unwrap();
	let mut out = Vec::new();
	let mut ok = if backward { it.seek_last().unwrap() } else { it.seek_first().unwrap() };
	while ok {
		out.push((it.key().user_key().to_vec(), it.value().unwrap()));
		ok = if backward { it.prev().unwrap() } else { it.next().unwrap() };
	}
	if backward {
		out.reverse();
	}
	out
}

async fn reads_enum_impl(maxlen: usize, name: &str) {
	use crate::compaction::leveled::Strategy;
	let mut alpha = vec![POp::Rotate, POp::Flush, POp::Compact, POp::BeginR(0), POp::BeginR(1)];
	for k in 0..2u8 {
		alpha.push(POp::Set(k));
		alpha.push(POp::Del(k));
	}
	let mut cases = 0u64;
	let mut nontrivial = 0u64;
	let mut failures: Vec<String> = Vec::new();
	let mut samples: Vec<String> = Vec::new();
	for len in 1..=maxlen {
		for code in 0..alpha.len().pow(len as u32) {
			let mut ops = Vec::new();
			let mut x = code;
			for _ in 0..len {
				ops.push(alpha[x % alpha.len()]);
				x /= alpha.len();
			}
			// only programs that begin each reader at most once and contain at least one reader
			let nb0 = ops.iter().filter(|o| **o == POp::BeginR(0)).count();
			let nb1 = ops.iter().filter(|o| **o == POp::BeginR(1)).count();
			if nb0 > 1 || nb1 > 1 || nb0 + nb1 == 0 {
				continue;
			}
			cases += 1;
			let dir = tempdir::TempDir::new("verif_c01r").unwrap();
			let (tree, opts) = TreeBuilder::new().with_path(dir.path().to_path_buf()).with_level_count(3).build_with_options().unwrap();
			let mut o = (*opts).clone();
			o.level0_max_files = 1;
			let strat: Arc<dyn crate::compaction::CompactionStrategy> = Arc::new(Strategy::from_options(Arc::new(o)));
			// committed state: key k0 present from the start
			let mut model: [Option<Vec<u8>>; 2] = [Some(b"base".to_vec()), None];
			{
				let mut t = tree.begin().unwrap();
				t.set(b"k0".to_vec(), b"base".to_vec()).unwrap();
				t.commit().await.unwrap();
			}
			let mut readers: [Option<(crate::Transaction, [Option<Vec<u8>>; 2])>; 2] = [None, None];
			let mut bad: Option<String> = None;
			for (i, op) in ops.iter().enumerate() {
				match *op {
					POp::Set(k) => {
						let v = format!("v{i}").into_bytes();
						let mut t = tree.begin().unwrap();
						t.set(vec![b'k', b'0' + k], v.clone()).unwrap();
						t.commit().await.unwrap();
						model[k as usize] = Some(v);
					}
					POp::Del(k) => {
						let mut t = tree.begin().unwrap();
						t.delete(vec![b'k', b'0' + k]).unwrap();
						t.commit().await.unwrap();
						model[k as usize] = None;
					}
					POp::Rotate => { let _ = tree.core.inner.rotate_memtable(); }
					POp::Flush => { let _ = tree.flush(); }
					POp::Compact => { let _ = tree.compact(strat.clone()); }
					POp::BeginR(s) => readers[s] = Some((tree.begin().unwrap(), model.clone())),
				}
				// every open reader still reads its begin-time state; a fresh reader reads the current state
				let fresh = tree.begin().unwrap();
				let mut views: Vec<(&crate::Transaction, &[Option<Vec<u8>>; 2], String)> = vec![(&fresh, &model, "fresh reader".to_string())];
				for (s, r) in readers.iter().enumerate() {
					if let Some((tx, m)) = r {
						views.push((tx, m, format!("reader {s}")));
					}
				}
				for (tx, m, who) in views {
					let want_scan: Vec<(Vec<u8>, Vec<u8>)> = (0..2u8).filter_map(|k| m[k as usize].clone().map(|v| (vec![b'k', b'0' + k], v))).collect();
					for k in 0..2u8 {
						let got = tx.get(vec![b'k', b'0' + k]).unwrap();
						if got != m[k as usize] && bad.is_none() {
							bad = Some(format!("after op {i} ({:?}): {who} get(k{k}) = {:?}, its snapshot holds {:?}", op, got, m[k as usize]));
						}
					}
					for backward in [false, true] {
						let got = scan(tx, backward);
						if got != want_scan && bad.is_none() {
							bad = Some(format!("after op {i} ({:?}): {who} {} scan = {:?}, its snapshot holds {:?}", op, if backward { "backward" } else { "forward" }, got, want_scan));
						}
					}
				}
			}
			drop(readers);
			let structural = ops.iter().filter(|o| matches!(o, POp::Rotate | POp::Flush | POp::Compact)).count();
			let writes = ops.iter().filter(|o| matches!(o, POp::Set(_) | POp::Del(_))).count();
			if structural >= 1 && writes >= 1 {
				nontrivial += 1;
				if samples.len() < 3 && len == maxlen {
					samples.push(format!("\"{:?}\"", ops));
				}
			}
			if let Some(b) = bad {
				if failures.len() < 5 {
					failures.push(format!("{{\"program\":\"{:?}\",\"mismatch\":{:?}}}", ops, b));
				}
			}
			let _ = tree.close().await;
		}
	}
	println!(
		"REPLAY-RESULT {{\"driver\":\"snapshot::{name}\",\"cases\":{cases},\"distinct_nontrivial\":{nontrivial},\"samples\":[{}],\"failures\":[{}]}}",
		samples.join(","),
		failures.join(",")
	);
	assert!(failures.is_empty());
}

#[tokio::test(flavor = "multi_thread", worker_threads = 2)]
async fn reads_enum_quick() {
	reads_enum_impl(3, "reads_enum_quick").await;
}

#[tokio::test(flavor = "multi_thread", worker_threads = 2)]
async fn reads_enum_thorough() {
	reads_enum_impl(4, "reads_enum_thorough").await;
}
