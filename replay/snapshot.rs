// Bounded-check driver for src/snapshot.rs (child module `verif_replay`).
// C01: the registry of live snapshot horizons (what compaction consults) always covers every open
// read transaction - also readers that share a start sequence, and readers that opened a range cursor.
// Bound (stated): programs of <= 5 operations over up to 3 reader slots from {begin(slot), drop(slot),
// commit_one_write, open+drop a range cursor on slot, get on slot}; after every step get_all_snapshots()
// must be exactly the (deduplicated, ascending) start sequences of the open readers.
use super::*;
use crate::{LSMIterator as _, TreeBuilder};

#[derive(Clone, Copy, Debug)]
enum Op {
	Begin(usize),
	DropR(usize),
	Write,
	Cursor(usize),
	Get(usize),
}

#[tokio::test(flavor = "multi_thread", worker_threads = 2)]
async fn registry_enum() {
	let mut alpha = Vec::new();
	for s in 0..3 {
		alpha.push(Op::Begin(s));
		alpha.push(Op::DropR(s));
		alpha.push(Op::Cursor(s));
		alpha.push(Op::Get(s));
	}
	alpha.push(Op::Write);
	let mut cases = 0u64;
	let mut nontrivial = 0u64;
	let mut failures: Vec<String> = Vec::new();
	let mut samples: Vec<String> = Vec::new();
	let dir = tempdir::TempDir::new("verif_c01").unwrap();
	let tree = TreeBuilder::new().with_path(dir.path().to_path_buf()).build().unwrap();
	let mut wcount = 0u64;
	for len in 1..=5usize {
		let total = alpha.len().pow(len as u32);
		for code in 0..total {
			let mut ops = Vec::new();
			let mut x = code;
			for _ in 0..len {
				ops.push(alpha[x % alpha.len()]);
				x /= alpha.len();
			}
			// skip programs that use a slot before beginning it (keeps the space meaningful)
			let mut open = [false; 3];
			let mut valid = true;
			for op in &ops {
				match *op {
					Op::Begin(s) => { if open[s] { valid = false; } open[s] = true; }
					Op::DropR(s) => { if !open[s] { valid = false; } open[s] = false; }
					Op::Cursor(s) | Op::Get(s) => { if !open[s] { valid = false; } }
					Op::Write => {}
				}
			}
			if !valid {
				continue;
			}
			cases += 1;
			let mut readers: [Option<crate::Transaction>; 3] = [None, None, None];
			let mut bad: Option<String> = None;
			let mut shared = false;
			for (i, op) in ops.iter().enumerate() {
				match *op {
					Op::Begin(s) => readers[s] = Some(tree.begin().unwrap()),
					Op::DropR(s) => readers[s] = None,
					Op::Write => {
						wcount += 1;
						let mut t = tree.begin().unwrap();
						t.set(format!("w{wcount}").into_bytes(), b"v".to_vec()).unwrap();
						t.commit().await.unwrap();
						drop(t);
					}
					Op::Cursor(s) => {
						let r = readers[s].as_ref().unwrap();
						let mut it = r.range(b"a".to_vec(), b"z".to_vec()).unwrap();
						let _ = it.seek_first();
					}
					Op::Get(s) => {
						let _ = readers[s].as_ref().unwrap().get(b"w1".to_vec());
					}
				}
				// contract: registrations == start sequences of the open readers (as multisets)
				let mut want: Vec<u64> = readers.iter().flatten().map(|r| r.start_seq_num).collect();
				want.sort();
				let mut dedup = want.clone();
				dedup.dedup();
				if dedup.len() < want.len() {
					shared = true;
				}
				// (only the tracker's public view is used, so the check does not depend on its representation)
				let got_set = tree.core.inner.snapshot_tracker.get_all_snapshots();
				if got_set != dedup && bad.is_none() {
					bad = Some(format!("after op {i} ({:?}): open readers start at {:?}, but get_all_snapshots() = {:?}", op, want, got_set));
				}
			}
			drop(readers);
			if shared {
				nontrivial += 1;
				if samples.len() < 3 && len == 5 {
					samples.push(format!("\"{:?}\"", ops));
				}
			}
			if let Some(b) = bad {
				if failures.len() < 5 {
					failures.push(format!("{{\"program\":\"{:?}\",\"mismatch\":{:?}}}", ops, b));
				}
			}
		}
	}
	println!(
		"REPLAY-RESULT {{\"driver\":\"snapshot::registry_enum\",\"cases\":{},\"distinct_nontrivial\":{},\"samples\":[{}],\"failures\":[{}]}}",
		cases,
		nontrivial,
		samples.join(","),
		failures.join(",")
	);
	assert!(failures.is_empty());
}

/// C01 / C06 bounded check on the real Tree: every open reader keeps reading exactly the state that was
/// committed when it began (point gets, forward and backward range scans), and a fresh reader reads the
/// current committed state, whatever memtable rotations, flushes and compaction rounds run in between.
/// Bound (stated): programs of <= `maxlen` operations from {set k0|k1, delete k0|k1, rotate memtable
/// (no flush), flush, compact, begin reader 0|1}, level_count 3; maxlen 3 (quick) / 4 (thorough); one more reader
/// is open during the whole program and every program is followed by [flush, compact].
#[derive(Clone, Copy, Debug, PartialEq)]
enum POp {
	Set(u8),
	Del(u8),
	Rotate,
	Flush,
	Compact,
	BeginR(usize),
}

fn scan(tx: &crate::Transaction, backward: bool) -> Vec<(Vec<u8>, Vec<u8>)> {
	let mut it = tx.range(b"k".to_vec(), b"l".to_vec()).unwrap();
	let mut out = Vec::new();
	let mut ok = if backward { it.seek_last().unwrap() } else { it.seek_first().unwrap() };
	while ok {
		out.push((it.key().user_key().to_vec(), it.value().unwrap()));
		ok = if backward { it.prev().unwrap() } else { it.next().unwrap() };
	}
	if backward {
		out.reverse();
	}
	out
}

async fn reads_enum_impl(maxlen: usize, name: &str) {
	use crate::compaction::leveled::Strategy;
	let mut alpha = vec![POp::Rotate, POp::Flush, POp::Compact, POp::BeginR(0), POp::BeginR(1)];
	for k in 0..2u8 {
		alpha.push(POp::Set(k));
		alpha.push(POp::Del(k));
	}
	let mut cases = 0u64;
	let mut nontrivial = 0u64;
	let mut failures: Vec<String> = Vec::new();
	let mut samples: Vec<String> = Vec::new();
	for len in 1..=maxlen {
		for code in 0..alpha.len().pow(len as u32) {
			let mut ops = Vec::new();
			let mut x = code;
			for _ in 0..len {
				ops.push(alpha[x % alpha.len()]);
				x /= alpha.len();
			}
			// only programs that begin each reader at most once and contain at least one reader
			let nb0 = ops.iter().filter(|o| **o == POp::BeginR(0)).count();
			let nb1 = ops.iter().filter(|o| **o == POp::BeginR(1)).count();
			if nb0 > 1 || nb1 > 1 || nb0 + nb1 == 0 {
				continue;
			}
			cases += 1;
			let dir = tempdir::TempDir::new("verif_c01r").unwrap();
			let (tree, opts) = TreeBuilder::new().with_path(dir.path().to_path_buf()).with_level_count(3).build_with_options().unwrap();
			let mut o = (*opts).clone();
			o.level0_max_files = 1;
			let strat: Arc<dyn crate::compaction::CompactionStrategy> = Arc::new(Strategy::from_options(Arc::new(o)));
			// committed state: key k0 present from the start
			let mut model: [Option<Vec<u8>>; 2] = [Some(b"base".to_vec()), None];
			{
				let mut t = tree.begin().unwrap();
				t.set(b"k0".to_vec(), b"base".to_vec()).unwrap();
				t.commit().await.unwrap();
			}
			let mut readers: [Option<(crate::Transaction, [Option<Vec<u8>>; 2])>; 2] = [None, None];
			// a reader that is open during the whole program (begun right after the initial commit): there is always
			// an OLDER snapshot than the ones the program opens
			let background = (tree.begin().unwrap(), model.clone());
			let mut bad: Option<String> = None;
			// every program is followed by a flush and a compaction round (with all the per-step checks)
			let mut ops_run = ops.clone();
			ops_run.push(POp::Flush);
			ops_run.push(POp::Compact);
			for (i, op) in ops_run.iter().enumerate() {
				match *op {
					POp::Set(k) => {
						let v = format!("v{i}").into_bytes();
						let mut t = tree.begin().unwrap();
						t.set(vec![b'k', b'0' + k], v.clone()).unwrap();
						t.commit().await.unwrap();
						model[k as usize] = Some(v);
					}
					POp::Del(k) => {
						let mut t = tree.begin().unwrap();
						t.delete(vec![b'k', b'0' + k]).unwrap();
						t.commit().await.unwrap();
						model[k as usize] = None;
					}
					POp::Rotate => { let _ = tree.core.inner.rotate_memtable(); }
					POp::Flush => { let _ = tree.flush(); }
					POp::Compact => { let _ = tree.compact(strat.clone()); }
					POp::BeginR(s) => readers[s] = Some((tree.begin().unwrap(), model.clone())),
				}
				// every open reader still reads its begin-time state; a fresh reader reads the current state
				let fresh = tree.begin().unwrap();
				let mut views: Vec<(&crate::Transaction, &[Option<Vec<u8>>; 2], String)> = vec![(&fresh, &model, "fresh reader".to_string()), (&background.0, &background.1, "the reader open since the start".to_string())];
				for (s, r) in readers.iter().enumerate() {
					if let Some((tx, m)) = r {
						views.push((tx, m, format!("reader {s}")));
					}
				}
				for (tx, m, who) in views {
					let want_scan: Vec<(Vec<u8>, Vec<u8>)> = (0..2u8).filter_map(|k| m[k as usize].clone().map(|v| (vec![b'k', b'0' + k], v))).collect();
					for k in 0..2u8 {
						let got = tx.get(vec![b'k', b'0' + k]).unwrap();
						if got != m[k as usize] && bad.is_none() {
							bad = Some(format!("after op {i} ({:?}): {who} get(k{k}) = {:?}, its snapshot holds {:?}", op, got, m[k as usize]));
						}
					}
					for backward in [false, true] {
						let got = scan(tx, backward);
						if got != want_scan && bad.is_none() {
							bad = Some(format!("after op {i} ({:?}): {who} {} scan = {:?}, its snapshot holds {:?}", op, if backward { "backward" } else { "forward" }, got, want_scan));
						}
					}
				}
			}
			drop(readers);
			drop(background);
			let structural = ops.iter().filter(|o| matches!(o, POp::Rotate | POp::Flush | POp::Compact)).count();
			let writes = ops.iter().filter(|o| matches!(o, POp::Set(_) | POp::Del(_))).count();
			if structural >= 1 && writes >= 1 {
				nontrivial += 1;
				if samples.len() < 3 && len == maxlen {
					samples.push(format!("\"{:?}\"", ops));
				}
			}
			if let Some(b) = bad {
				if failures.len() < 5 {
					failures.push(format!("{{\"program\":\"{:?}\",\"mismatch\":{:?}}}", ops, b));
				}
			}
			let _ = tree.close().await;
		}
	}
	println!(
		"REPLAY-RESULT {{\"driver\":\"snapshot::{name}\",\"cases\":{cases},\"distinct_nontrivial\":{nontrivial},\"samples\":[{}],\"failures\":[{}]}}",
		samples.join(","),
		failures.join(",")
	);
	assert!(failures.is_empty());
}

#[tokio::test(flavor = "multi_thread", worker_threads = 2)]
async fn reads_enum_quick() {
	reads_enum_impl(3, "reads_enum_quick").await;
}

#[tokio::test(flavor = "multi_thread", worker_threads = 2)]
async fn reads_enum_thorough() {
	reads_enum_impl(4, "reads_enum_thorough").await;
}

// ------------------------------------------------------------------------------------------------
// C10 bounded check: time-travel reads and history listings on a real versioned Tree (retention unlimited).
//  (a) MODEL: get_at(k, T) = value of the retained version with the greatest timestamp <= T, the latest commit
//      among equal timestamps, nothing if it is a delete or none exists; a hard delete or a replace erases every
//      earlier version for good.
//  (b) METAMORPHIC: every get_at answer and the complete history listing (forward and backward, with and
//      without tombstones) are identical before and after flush, after a compaction round, and after reopen;
//      get_at answers are identical with and without the B+tree version index.
// Bound (stated): one key (plus two untouched neighbours), programs of <= `maxlen` operations from
// {set_at 100, set_at 200, soft delete at 100, soft delete at 200, hard delete at 200, replace (commit time),
// flush} with non-decreasing timestamps, read timestamps {50,100,150,200,250,now}, both index back-ends.
#[derive(Clone, Copy, Debug, PartialEq)]
enum VOp {
	SetAt(u64),
	SoftDelAt(u64),
	HardDelAt(u64),
	Replace,
	Flush,
}

#[derive(Clone, Debug, PartialEq)]
struct Ver {
	ts: u64,
	tomb: bool,
	val: Vec<u8>,
}

type Obs = (Vec<Option<Vec<u8>>>, Vec<Vec<(Vec<u8>, u64, bool, Vec<u8>)>>, Option<String>);

fn observe(tree: &crate::Tree, reads: &[u64]) -> std::result::Result<Obs, String> {
	use crate::HistoryOptions;
	let tx = tree.begin().map_err(|e| e.to_string())?;
	// FIRST reader of whatever tables exist now: a windowed history query (its blocks are cached under the timestamp
	// order), then a plain point read - which must not be answered from those blocks
	let plain_first = {
		let opts = HistoryOptions::new().with_tombstones(true).with_ts_range(50, 1000);
		let mut it = tx.history_with_options(b"a".to_vec(), b"z".to_vec(), &opts).map_err(|e| format!("history failed: {e}"))?;
		let mut ok = it.seek_first().map_err(|e| format!("history seek failed: {e}"))?;
		let mut guard = 0;
		while ok && guard < 100 {
			guard += 1;
			ok = it.next().map_err(|e| format!("history step failed: {e}"))?;
		}
		drop(it);
		tx.get(b"k".to_vec()).map_err(|e| format!("get failed: {e}"))?
	};
	let mut gets = Vec::new();
	for &t in reads {
		gets.push(tx.get_at(b"k".to_vec(), t).map_err(|e| format!("get_at({t}) failed: {e}"))?);
	}
	let mut lists = Vec::new();
	for tomb in [false, true] {
		for backward in [false, true] {
			let opts = HistoryOptions::new().with_tombstones(tomb);
			let mut it = tx.history_with_options(b"a".to_vec(), b"z".to_vec(), &opts).map_err(|e| format!("history failed: {e}"))?;
			let mut out = Vec::new();
			let mut ok = if backward { it.seek_last() } else { it.seek_first() }.map_err(|e| format!("history seek failed: {e}"))?;
			let mut guard = 0;
			while ok && guard < 100 {
				guard += 1;
				let k = it.key();
				out.push((k.user_key().to_vec(), k.timestamp(), k.is_tombstone(), if k.is_tombstone() { Vec::new() } else { it.value().map_err(|e| format!("history value failed: {e}"))? }));
				ok = if backward { it.prev() } else { it.next() }.map_err(|e| format!("history step failed: {e}"))?;
			}
			if backward {
				out.reverse();
			}
			lists.push(out);
		}
	}
	// a complete backward traversal lists what the complete forward traversal lists
	// (versions of one key with EQUAL timestamps have no order the property fixes: compared as a group)
	let norm = |l: &Vec<(Vec<u8>, u64, bool, Vec<u8>)>| -> Vec<(Vec<u8>, u64, bool, Vec<u8>)> {
		let mut out = l.clone();
		let mut i = 0;
		while i < out.len() {
			let mut j = i + 1;
			while j < out.len() && out[j].0 == out[i].0 && out[j].1 == out[i].1 {
				j += 1;
			}
			out[i..j].sort();
			i = j;
		}
		out
	};
	let mut fwd_bwd: Option<String> = None;
	for t in 0..2 {
		if norm(&lists[2 * t]) != norm(&lists[2 * t + 1]) && fwd_bwd.is_none() {
			let show = |l: &Vec<(Vec<u8>, u64, bool, Vec<u8>)>| l.iter().map(|e| format!("{}@{}", String::from_utf8_lossy(&e.0), e.1)).collect::<Vec<_>>();
			fwd_bwd = Some(format!("history (tombstones={}): the backward traversal (seek_last, prev ...) lists {:?}, the forward traversal lists {:?}", t == 1, show(&lists[2 * t + 1]), show(&lists[2 * t])));
		}
	}
	// the same listing restricted to timestamp windows (tombstones included, forward)
	for (lo, hi) in [(50u64, 1000u64), (150, 1000), (100, 150), (150, 180), (0, 100)] {
		let opts = HistoryOptions::new().with_tombstones(true).with_ts_range(lo, hi);
		let mut it = tx.history_with_options(b"a".to_vec(), b"z".to_vec(), &opts).map_err(|e| format!("history [{lo},{hi}] failed: {e}"))?;
		let mut out = Vec::new();
		let mut ok = it.seek_first().map_err(|e| format!("history seek failed: {e}"))?;
		let mut guard = 0;
		while ok && guard < 100 {
			guard += 1;
			let k = it.key();
			out.push((k.user_key().to_vec(), k.timestamp(), k.is_tombstone(), if k.is_tombstone() { Vec::new() } else { it.value().map_err(|e| format!("history value failed: {e}"))? }));
			ok = it.next().map_err(|e| format!("history step failed: {e}"))?;
		}
		// the same window walked backward lists the same
		let mut it = tx.history_with_options(b"a".to_vec(), b"z".to_vec(), &opts).map_err(|e| format!("history [{lo},{hi}] failed: {e}"))?;
		let mut back = Vec::new();
		let mut ok = it.seek_last().map_err(|e| format!("history seek failed: {e}"))?;
		let mut guard = 0;
		while ok && guard < 100 {
			guard += 1;
			let k = it.key();
			back.push((k.user_key().to_vec(), k.timestamp(), k.is_tombstone(), if k.is_tombstone() { Vec::new() } else { it.value().map_err(|e| format!("history value failed: {e}"))? }));
			ok = it.prev().map_err(|e| format!("history step failed: {e}"))?;
		}
		back.reverse();
		if norm(&back) != norm(&out) && fwd_bwd.is_none() {
			let show = |l: &Vec<(Vec<u8>, u64, bool, Vec<u8>)>| l.iter().map(|e| format!("{}@{}", String::from_utf8_lossy(&e.0), e.1)).collect::<Vec<_>>();
			fwd_bwd = Some(format!("history with timestamp window [{lo},{hi}]: the backward traversal lists {:?}, the forward traversal lists {:?}", show(&back), show(&out)));
		}
		// the same window with the LOWER BOUND ON THE KEY ITSELF (the cursor's first seek then lands inside the key's
		// versions instead of before them) lists the same
		let mut it = tx.history_with_options(b"k".to_vec(), b"z".to_vec(), &opts).map_err(|e| format!("history [{lo},{hi}] from k failed: {e}"))?;
		let mut from_k = Vec::new();
		let mut ok = it.seek_first().map_err(|e| format!("history seek failed: {e}"))?;
		let mut guard = 0;
		while ok && guard < 100 {
			guard += 1;
			let k = it.key();
			from_k.push((k.user_key().to_vec(), k.timestamp(), k.is_tombstone(), if k.is_tombstone() { Vec::new() } else { it.value().map_err(|e| format!("history value failed: {e}"))? }));
			ok = it.next().map_err(|e| format!("history step failed: {e}"))?;
		}
		let out_from_k: Vec<(Vec<u8>, u64, bool, Vec<u8>)> = out.iter().filter(|e| e.0.as_slice() >= b"k".as_slice()).cloned().collect();
		if norm(&from_k) != norm(&out_from_k) && fwd_bwd.is_none() {
			let show = |l: &Vec<(Vec<u8>, u64, bool, Vec<u8>)>| l.iter().map(|e| format!("{}@{}", String::from_utf8_lossy(&e.0), e.1)).collect::<Vec<_>>();
			fwd_bwd = Some(format!("history with timestamp window [{lo},{hi}]: the listing of [k, z) is {:?}, the listing of [a, z) from k on is {:?}", show(&from_k), show(&out_from_k)));
		}
		lists.push(out);
	}
	// a plain point read AFTER the windowed history queries (whose blocks are cached under another key order) answers
	// what the time-travel read at 'now' answered before them: what is cached never changes an answer
	let plain = tx.get(b"k".to_vec()).map_err(|e| format!("get failed: {e}"))?;
	if Some(&plain_first) != gets.last() {
		return Err(format!("get(k) right after a windowed history query (first reader of the tables) returns {:?}, get_at(k, now) returns {:?}", plain_first.as_ref().map(|v| String::from_utf8_lossy(v).to_string()), gets.last().map(|g| g.as_ref().map(|v| String::from_utf8_lossy(v).to_string()))));
	}
	if Some(&plain) != gets.last() && fwd_bwd.is_none() {
		return Err(format!("get(k) after the windowed history queries returns {:?}, get_at(k, now) before them returned {:?}", plain.as_ref().map(|v| String::from_utf8_lossy(v).to_string()), gets.last().map(|g| g.as_ref().map(|v| String::from_utf8_lossy(v).to_string()))));
	}
	Ok((gets, lists, fwd_bwd))
}

/// get_at answers under known finding F21: the version index holds ONE entry per (key, timestamp) - of the
/// writes already flushed (`ops[..flushed_upto]`) the last one of each timestamp survives, barriers included;
/// unflushed writes are all there
fn f21_gets(ops: &[VOp], flushed_upto: usize, reads: &[u64]) -> Vec<Option<Vec<u8>>> {
	#[derive(Clone)]
	struct E {
		ts: u64,
		barrier: bool,
		tomb: bool,
		val: Vec<u8>,
	}
	let mut index: std::collections::BTreeMap<u64, E> = std::collections::BTreeMap::new();
	let mut mem: Vec<E> = Vec::new();
	for (i, op) in ops.iter().enumerate() {
		let v = format!("v{i}").into_bytes();
		let e = match *op {
			VOp::SetAt(t) => E { ts: t, barrier: false, tomb: false, val: v },
			VOp::SoftDelAt(t) => E { ts: t, barrier: false, tomb: true, val: Vec::new() },
			VOp::HardDelAt(t) => E { ts: t, barrier: true, tomb: true, val: Vec::new() },
			VOp::Replace => E { ts: u64::MAX, barrier: true, tomb: false, val: v },
			VOp::Flush => continue,
		};
		if i < flushed_upto {
			index.insert(e.ts, e);
		} else {
			mem.push(e);
		}
	}
	let bar = index.values().filter(|e| e.barrier).map(|e| e.ts).max();
	let mut all: Vec<E> = index.values().filter(|e| bar.map_or(true, |b| e.ts >= b)).cloned().collect();
	for e in mem {
		if e.barrier {
			all.clear();
		}
		all.push(e);
	}
	reads
		.iter()
		.map(|&t| {
			let mut best: Option<&E> = None;
			for e in &all {
				if e.ts <= t && best.map_or(true, |b| e.ts >= b.ts) {
					best = Some(e);
				}
			}
			best.and_then(|b| if b.tomb { None } else { Some(b.val.clone()) })
		})
		.collect()
}

async fn timetravel_enum_impl(maxlen: usize, name: &str) {
	use crate::compaction::leveled::Strategy;
	use crate::WriteOptions;
	let alpha = [VOp::SetAt(100), VOp::SetAt(200), VOp::SoftDelAt(100), VOp::SoftDelAt(200), VOp::HardDelAt(200), VOp::Replace, VOp::Flush];
	let reads: Vec<u64> = vec![50, 100, 150, 200, 250, u64::MAX];
	let mut kf21 = 0u64;
	let mut kf21_example = String::new();
	let mut kf28 = 0u64;
	let mut kf28_example = String::new();
	let mut cases = 0u64;
	let mut nontrivial = 0u64;
	let mut failures: Vec<String> = Vec::new();
	let mut samples: Vec<String> = Vec::new();
	for len in 1..=maxlen {
		'prog: for code in 0..alpha.len().pow(len as u32) {
			let mut ops = Vec::new();
			let mut x = code;
			for _ in 0..len {
				ops.push(alpha[x % alpha.len()]);
				x /= alpha.len();
			}
			// non-decreasing timestamps; a replace is written at commit time, nothing explicit may follow it
			let mut last = 0u64;
			for op in &ops {
				let ts = match op {
					VOp::SetAt(t) | VOp::SoftDelAt(t) | VOp::HardDelAt(t) => *t,
					VOp::Replace => u64::MAX,
					VOp::Flush => continue,
				};
				if ts < last {
					continue 'prog;
				}
				last = ts;
			}
			if !ops.iter().any(|o| !matches!(o, VOp::Flush)) {
				continue;
			}
			cases += 1;
			// model
			let mut vers: Vec<Ver> = Vec::new();
			let mut replace_seen = false;
			for (i, op) in ops.iter().enumerate() {
				let v = format!("v{i}").into_bytes();
				match *op {
					VOp::SetAt(t) => vers.push(Ver { ts: t, tomb: false, val: v }),
					VOp::SoftDelAt(t) => vers.push(Ver { ts: t, tomb: true, val: Vec::new() }),
					VOp::HardDelAt(t) => {
						vers.clear();
						vers.push(Ver { ts: t, tomb: true, val: Vec::new() });
					}
					VOp::Replace => {
						vers.clear();
						replace_seen = true;
						vers.push(Ver { ts: u64::MAX, tomb: false, val: v }); // written at commit time: after every explicit timestamp used here
					}
					VOp::Flush => {}
				}
			}
			let want: Vec<Option<Vec<u8>>> = reads
				.iter()
				.map(|&t| {
					let mut best: Option<&Ver> = None;
					for v in &vers {
						// commit time of a replace lies between 250 and u64::MAX
						let vts = v.ts;
						if vts <= t && best.map_or(true, |b| vts >= b.ts) {
							best = Some(v);
						}
					}
					best.and_then(|b| if b.tomb { None } else { Some(b.val.clone()) })
				})
				.collect();
			let mut per_index: Vec<Vec<Option<Vec<u8>>>> = Vec::new();
			let mut bad: Option<String> = None;
			// two writes of the key with the same timestamp (the version index holds one entry per (key, timestamp))
			let stamps: Vec<u64> = ops.iter().filter_map(|o| match o { VOp::SetAt(t) | VOp::SoftDelAt(t) | VOp::HardDelAt(t) => Some(*t), _ => None }).collect();
			let dup_ts = (0..stamps.len()).any(|i| (0..i).any(|j| stamps[i] == stamps[j]));
			for index in [false, true] {
				let dir = tempdir::TempDir::new("verif_c10").unwrap();
				let build = |p: &std::path::Path| TreeBuilder::new().with_path(p.to_path_buf()).with_level_count(3).with_versioning(true, 0).with_versioned_index(index).build_with_options();
				let (tree, opts) = match build(dir.path()) {
					Ok(x) => x,
					Err(e) => {
						bad = Some(format!("open failed: {e}"));
						break;
					}
				};
				let mut o = (*opts).clone();
				o.level0_max_files = 1;
				let strat = Arc::new(Strategy::from_options(Arc::new(o)));
				for nk in [b"j".to_vec(), b"l".to_vec()] {
					let mut t = tree.begin().unwrap();
					t.set_at(nk, b"neighbour".to_vec(), 10).unwrap();
					t.commit().await.unwrap();
				}
				for (i, op) in ops.iter().enumerate() {
					let v = format!("v{i}").into_bytes();
					let mut t = tree.begin().unwrap();
					let r = match *op {
						VOp::SetAt(ts) => t.set_at(b"k".to_vec(), v, ts),
						VOp::SoftDelAt(ts) => t.soft_delete_with_options(b"k".to_vec(), &WriteOptions::new().with_timestamp(Some(ts))),
						VOp::HardDelAt(ts) => t.delete_with_options(b"k".to_vec(), &WriteOptions::new().with_timestamp(Some(ts))),
						VOp::Replace => t.replace(b"k".to_vec(), v),
						VOp::Flush => {
							drop(t);
							let _ = tree.flush();
							continue;
						}
					};
					if let Err(e) = r {
						bad = Some(format!("op #{i} {:?} failed: {e}", op));
						break;
					}
					if let Err(e) = t.commit().await {
						bad = Some(format!("commit of op #{i} {:?} failed: {e}", op));
						break;
					}
				}
				if bad.is_some() {
					break;
				}
				// every observation stage: get_at against the model of the property; with the index ON and two
				// writes sharing a timestamp, an answer that instead equals the F21 model (one index entry per
				// (key, timestamp), last flushed write wins, barriers can be overwritten) is a known-finding candidate
				let fmt = |g: &Vec<Option<Vec<u8>>>| g.iter().map(|v| v.as_ref().map(|b| String::from_utf8_lossy(b).to_string())).collect::<Vec<_>>();
				let mask = |g: &Vec<Option<Vec<u8>>>| -> Vec<Option<Vec<u8>>> {
					// the commit time of a replace is only known to lie above 250: compare the 'now' read only
					if replace_seen { g.iter().enumerate().map(|(i, v)| if i + 1 < reads.len() { None } else { v.clone() }).collect() } else { g.clone() }
				};
				let last_flush = ops.iter().rposition(|o| *o == VOp::Flush).unwrap_or(0);
				let mut f21_hit = false;
				let mut fb_hit = false;
				let mut judge = |stage: &str, gets: &Vec<Option<Vec<u8>>>, flushed_upto: usize| -> Option<String> {
					if mask(gets) == mask(&want) {
						return None;
					}
					if index && dup_ts && mask(gets) == mask(&f21_gets(&ops, flushed_upto, &reads)) {
						f21_hit = true;
						return None;
					}
					Some(format!("index={index} {stage}: get_at at {:?} returns {:?}, the version with the greatest timestamp not above T is {:?}", reads, fmt(gets), fmt(&want)))
				};
				let o1 = match observe(&tree, &reads) {
					Ok(o) => o,
					Err(e) => {
						bad = Some(format!("index={index}: {e}"));
						break;
					}
				};
				if let Some(b) = judge("after the program", &o1.0, last_flush) {
					bad = Some(b);
					break;
				}
				// forward and backward traversal must list the same; with the index ON and two writes sharing a timestamp
				// a difference is a candidate for known finding F21 (the order / survival of equal-timestamp versions)
				if let Some(m) = &o1.2 {
					if index && dup_ts {
						fb_hit = true;
					} else {
						bad = Some(format!("index={index} after the program: {m}"));
						break;
					}
				}
				per_index.push(o1.0.clone());
				// (b) metamorphic: flush, compact, reopen
				let mut stage = "flush";
				let _ = tree.flush();
				let mut o_prev = o1.clone();
				let mut listing_changed: Option<String> = None;
				for round in 0..3 {
					let o2 = match observe(&tree, &reads) {
						Ok(o) => o,
						Err(e) => {
							bad = Some(format!("index={index} after {stage}: {e}"));
							break;
						}
					};
					if let Some(b) = judge(&format!("after {stage}"), &o2.0, ops.len()) {
						bad = Some(b);
						break;
					}
					if let Some(m) = &o2.2 {
						if index && dup_ts {
							fb_hit = true;
						} else {
							bad = Some(format!("index={index} after {stage}: {m}"));
							break;
						}
					}
					if o2.1 != o_prev.1 && listing_changed.is_none() {
						let i = (0..o2.1.len()).find(|&i| o2.1[i] != o_prev.1[i]).unwrap();
						let show = |l: &Vec<(Vec<u8>, u64, bool, Vec<u8>)>| l.iter().map(|(k, t, d, v)| format!("{}@{}{}={}", String::from_utf8_lossy(k), t, if *d { " DEL" } else { "" }, String::from_utf8_lossy(v))).collect::<Vec<_>>();
						listing_changed = Some(format!("index={index}: history listing ({}) changed by {stage}: was {:?} and became {:?}", if i < 4 { format!("tombstones={}, backward={}", i / 2 == 1, i % 2 == 1) } else { format!("timestamp window #{} of [(50,1000),(150,1000),(100,150),(150,180),(0,100)]", i - 4) }, show(&o_prev.1[i]), show(&o2.1[i])));
					}
					o_prev = o2;
					if round == 0 {
						stage = "compaction";
						let _ = tree.compact(strat.clone());
					} else if round == 1 {
						stage = "a second compaction";
						let _ = tree.compact(strat.clone());
					}
				}
				let _ = tree.close().await;
				if bad.is_some() {
					break;
				}
				// reopen
				match build(dir.path()) {
					Err(e) => {
						bad = Some(format!("index={index}: reopen failed: {e}"));
						break;
					}
					Ok((tree2, _)) => {
						match observe(&tree2, &reads) {
							Ok(o4) => {
								if let Some(b) = judge("after reopen", &o4.0, ops.len()) {
									bad = Some(b);
								} else if o4.2.is_some() && !(index && dup_ts) {
									bad = Some(format!("index={index} after reopen: {}", o4.2.clone().unwrap()));
								} else if o4.1 != o_prev.1 && listing_changed.is_none() {
									listing_changed = Some(format!("index={index}: history listing changed by reopen: sizes {:?} -> {:?}", o_prev.1.iter().map(|l| l.len()).collect::<Vec<_>>(), o4.1.iter().map(|l| l.len()).collect::<Vec<_>>()));
								}
							}
							Err(e) => bad = Some(format!("index={index} after reopen: {e}")),
						}
						let _ = tree2.close().await;
					}
				}
				if bad.is_some() {
					break;
				}
				if let Some(l) = listing_changed {
					// a TIMESTAMP-WINDOW listing that changes, in a program with a hard delete or a replace, is a candidate
					// for known finding F28 (the window is applied before the barrier logic and tables outside the
					// window are pruned: an erased version shows through a window that excludes the barrier until
					// compaction physically drops it)
					let has_barrier = ops.iter().any(|o| matches!(o, VOp::HardDelAt(_) | VOp::Replace));
					if l.contains("timestamp window") && has_barrier {
						kf28 += 1;
						if kf28_example.is_empty() {
							kf28_example = format!("{{\"program_on_key_k\":\"{:?}\",\"mismatch\":{:?}}}", ops, l);
						}
					} else
					// a listing that changes is excusable only as F21: index ON and two writes sharing a timestamp
					if index && dup_ts {
						f21_hit = true;
						if kf21_example.is_empty() {
							kf21_example = format!("{{\"program_on_key_k\":\"{:?}\",\"mismatch\":{:?}}}", ops, l);
						}
					} else {
						bad = Some(l);
						break;
					}
				}
				if f21_hit || fb_hit {
					kf21 += 1;
					if kf21_example.is_empty() {
						kf21_example = format!("{{\"program_on_key_k\":\"{:?}\",\"mismatch\":\"index=true: get_at answers follow the one-entry-per-(key,timestamp) index model, not the property\"}}", ops);
					}
				}
			}
			if bad.is_none() && per_index.len() == 2 && per_index[0] != per_index[1] && !replace_seen && !dup_ts {
				bad = Some(format!("get_at answers differ without / with the version index: {:?} vs {:?}", per_index[0].iter().map(|v| v.as_ref().map(|b| String::from_utf8_lossy(b).to_string())).collect::<Vec<_>>(), per_index[1].iter().map(|v| v.as_ref().map(|b| String::from_utf8_lossy(b).to_string())).collect::<Vec<_>>()));
			}
			if ops.iter().filter(|o| !matches!(o, VOp::Flush)).count() >= 2 {
				nontrivial += 1;
				if samples.len() < 3 && len == maxlen && ops.contains(&VOp::Flush) {
					samples.push(format!("\"{:?}\"", ops));
				}
			}
			if let Some(b) = bad {
				if failures.len() < 8 {
					failures.push(format!("{{\"program_on_key_k\":\"{:?}\",\"mismatch\":{:?}}}", ops, b));
				}
			}
		}
	}
	println!(
		"REPLAY-RESULT {{\"driver\":\"snapshot::{name}\",\"cases\":{cases},\"distinct_nontrivial\":{nontrivial},\"samples\":[{}],\"kf_candidates\":{{\"F21\":{{\"count\":{kf21},\"example\":{}}},\"F28\":{{\"count\":{kf28},\"example\":{}}}}},\"failures\":[{}]}}",
		samples.join(","),
		if kf21_example.is_empty() { "null".to_string() } else { kf21_example.clone() },
		if kf28_example.is_empty() { "null".to_string() } else { kf28_example.clone() },
		failures.join(",")
	);
	assert!(failures.is_empty());
}

#[tokio::test(flavor = "multi_thread", worker_threads = 2)]
async fn timetravel_enum_quick() {
	timetravel_enum_impl(3, "timetravel_enum_quick").await;
}

#[tokio::test(flavor = "multi_thread", worker_threads = 2)]
async fn timetravel_enum_thorough() {
	timetravel_enum_impl(4, "timetravel_enum_thorough").await;
}
