// Bounded-check driver for src/snapshot.rs (child module `verif_replay`).
// C01: the registry of live snapshot horizons (what compaction consults) always covers every open
// read transaction - also readers that share a start sequence, and readers that opened a range cursor.
// Bound (stated): programs of <= 5 operations over up to 3 reader slots from {begin(slot), drop(slot),
// commit_one_write, open+drop a range cursor on slot, get on slot}; after every step get_all_snapshots()
// must be exactly the (deduplicated, ascending) start sequences of the open readers.
use super::*;
use crate::{LSMIterator as _, TreeBuilder};

#[derive(Clone, Copy, Debug)]
enum Op {
	Begin(usize),
	DropR(usize),
	Write,
	Cursor(usize),
	Get(usize),
}

#[tokio::test(flavor = "multi_thread", worker_threads = 2)]
async fn registry_enum() {
	let mut alpha = Vec::new();
	for s in 0..3 {
		alpha.push(Op::Begin(s));
		alpha.push(Op::DropR(s));
		alpha.push(Op::Cursor(s));
		alpha.push(Op::Get(s));
	}
	alpha.push(Op::Write);
	let mut cases = 0u64;
	let mut nontrivial = 0u64;
	let mut failures: Vec<String> = Vec::new();
	let mut samples: Vec<String> = Vec::new();
	let dir = tempdir::TempDir::new("verif_c01").unwrap();
	let tree = TreeBuilder::new().with_path(dir.path().to_path_buf()).build().unwrap();
	let mut wcount = 0u64;
	for len in 1..=5usize {
		let total = alpha.len().pow(len as u32);
		for code in 0..total {
			let mut ops = Vec::new();
			let mut x = code;
			for _ in 0..len {
				ops.push(alpha[x % alpha.len()]);
				x /= alpha.len();
			}
			// skip programs that use a slot before beginning it (keeps the space meaningful)
			let mut open = [false; 3];
			let mut valid = true;
			for op in &ops {
				match *op {
					Op::Begin(s) => { if open[s] { valid = false; } open[s] = true; }
					Op::DropR(s) => { if !open[s] { valid = false; } open[s] = false; }
					Op::Cursor(s) | Op::Get(s) => { if !open[s] { valid = false; } }
					Op::Write => {}
				}
			}
			if !valid {
				continue;
			}
			cases += 1;
			let mut readers: [Option<crate::Transaction>; 3] = [None, None, None];
			let mut bad: Option<String> = None;
			let mut shared = false;
			for (i, op) in ops.iter().enumerate() {
				match *op {
					Op::Begin(s) => readers[s] = Some(tree.begin().unwrap()),
					Op::DropR(s) => readers[s] = None,
					Op::Write => {
						wcount += 1;
						let mut t = tree.begin().unwrap();
						t.set(format!("w{wcount}").into_bytes(), b"v".to_vec()).unwrap();
						t.commit().await.unwrap();
						drop(t);
					}
					Op::Cursor(s) => {
						let r = readers[s].as_ref().unwrap();
						let mut it = r.range(b"a".to_vec(), b"z".to_vec()).unwrap();
						let _ = it.seek_first();
					}
					Op::Get(s) => {
						let _ = readers[s].as_ref().unwrap().get(b"w1".to_vec());
					}
				}
				// contract: registrations == start sequences of the open readers (as multisets)
				let mut want: Vec<u64> = readers.iter().flatten().map(|r| r.start_seq_num).collect();
				want.sort();
				let mut dedup = want.clone();
				dedup.dedup();
				if dedup.len() < want.len() {
					shared = true;
				}
				// (only the tracker's public view is used, so the check does not depend on its representation)
				let got_set = tree.core.inner.snapshot_tracker.get_all_snapshots();
				if got_set != dedup && bad.is_none() {
					bad = Some(format!("after op {i} ({:?}): open readers start at {:?}, but get_all_snapshots() = {:?}", op, want, got_set));
				}
			}
			drop(readers);
			if shared {
				nontrivial += 1;
				if samples.len() < 3 && len == 5 {
					samples.push(format!("\"{:?}\"", ops));
				}
			}
			if let Some(b) = bad {
				if failures.len() < 5 {
					failures.push(format!("{{\"program\":\"{:?}\",\"mismatch\":{:?}}}", ops, b));
				}
			}
		}
	}
	println!(
		"REPLAY-RESULT {{\"driver\":\"snapshot::registry_enum\",\"cases\":{},\"distinct_nontrivial\":{},\"samples\":[{}],\"failures\":[{}]}}",
		cases,
		nontrivial,
		samples.join(","),
		failures.join(",")
	);
	assert!(failures.is_empty());
}
